"""C10 (iv_signal), C11 (iv_wait), C19 (iv_popen): the real library under the baton scheduler with virtual
signals and child processes (harness/ivmt.c + ivmt_sig.c + mt.c); the log of every scenario must be accepted
by the extracted Coq transition system and satisfy its monitor (docs/MT_GUIDE.md)."""
import hashlib
import os
import re

import vlib
import runner
from mtcheck import MTCheck

HARNESS_SRCS = ["ivmt.c", "ivmt_sig.c", "vk.c", "mt.c"]


class SigBase(MTCheck):
    """common build: extraction + (zutil, mtlog, driver) + ivmt with the signal/process extension"""

    def build(self, ctx):
        d = os.path.join(ctx.work, "b")
        ok, out = vlib.coq_extract(self.extract_v, d)
        if not ok:
            return False, out
        drv = self.driver_in.replace(".ml.in", ".ml")
        with open(os.path.join(d, drv), "w") as f:
            f.write("open %s\n" % self.open_module)
            for part in ("zutil.ml.in", "mtlog.ml.in", self.driver_in):
                f.write(open(os.path.join(vlib.VERIF, "ocaml", part)).read())
        ok, out2 = vlib.ocaml_build(d, [self.model_ml, drv], "mt_model_run")
        if not ok:
            return False, out + out2
        ok, out3 = vlib.cc_build(d, "ivmt", HARNESS_SRCS, vlib.LIB_SRCS, wraps=vlib.MT_WRAPS)
        self.d = d
        return ok, out + out2 + out3

    def timeout(self, ctx):
        return 600 if ctx.tier == "quick" else 3000

    # ---- helpers shared by the three checks ----
    @staticmethod
    def sched(rng, nthr, n):
        """schedule string: runs of one thread (so that critical sections complete) mixed with fast alternation"""
        out = []
        while len(out) < n:
            t = rng.randrange(nthr)
            r = rng.random()
            if r < 0.5:
                out += [t] * rng.randint(1, 3)
            elif r < 0.8:
                out += [t] * rng.randint(4, 12)
            else:
                u = rng.randrange(nthr)
                out += [t, u] * rng.randint(1, 4)
        return "".join("%x" % x for x in out[:n])

    @staticmethod
    def sections(case):
        return [s.strip() for s in case.split(";") if s.strip()]

    def _fails(self, ctx, case):
        st = self.correspond(ctx, [case])
        return bool(st["crashes"] or st["monfail"] or st["div"])

    def shrink(self, ctx, case):
        """drop whole sections (handler scripts, threads), then single actions, then schedule characters"""
        secs = self.sections(case)
        tries = 0

        def ok(ss):
            nonlocal tries
            tries += 1
            return self._fails(ctx, ";".join(ss))

        i = 0
        while i < len(secs) and tries < 60:
            if secs[i][0] in "HP" or (secs[i][0] == "L" and not secs[i].startswith("L0")):
                cand = secs[:i] + secs[i + 1:]
                if ok(cand):
                    secs = cand
                    continue
            i += 1
        for k in range(len(secs)):
            if secs[k][0] not in "LHP" or ":" not in secs[k]:
                continue
            head, body = secs[k].split(":", 1)
            lists = [l.split() for l in body.split("/")]
            for li in range(len(lists)):
                j = 0
                while j < len(lists[li]) and tries < 160:
                    cl = [list(x) for x in lists]
                    del cl[li][j]
                    cand = secs[:k] + [head + ":" + "/".join(" ".join(x) if x else "-" for x in cl)] + secs[k + 1:]
                    if ok(cand):
                        lists = cl
                        secs = cand
                    else:
                        j += 1
        for k in range(len(secs)):
            if secs[k][0] == "Z" and tries < 200:
                z = secs[k][1:]
                while len(z) > 1 and tries < 200:
                    cand = secs[:k] + ["Z" + z[:len(z) // 2]] + secs[k + 1:]
                    if ok(cand):
                        z = z[:len(z) // 2]
                        secs = cand
                    else:
                        break
        return ";".join(secs)

    def widen(self, ctx, case):
        secs = self.sections(case)
        out = []
        for k, s in enumerate(secs):
            if s[0] == "Z":
                for n in (0, 4, 8, 16, 32):
                    out.append(";".join(secs[:k] + ["Z" + s[1:1 + n]] + secs[k + 1:]))
        return out

    def describe(self, case):
        return {"scenario": case}


# ------------------------------------------------------------------------------------------------
class C10(SigBase):
    pid = "C10"
    extract_v = "Extract/ExtractSignal.v"
    model_ml = "signal_model.ml"
    driver_in = "signal_drv.ml.in"
    open_module = "Signal_model"
    coq_targets = ["theories/MT/SignalModel.vo", "theories/MT/SignalProofs.vo", "theories/MT/SignalFacts.vo",
                   "theories/MT/SignalMon.vo",
                   "theories/Base/CSem.vo", "theories/Base/CSemFacts.vo", "theories/Gen/LeafSignal.vo", "theories/MT/SignalLink.vo"]

    # way (a) of the tie for the order of the interest trees: iv_signal_compare is re-translated from the current source on every
    # run (gen/c2gallina.py -> Gen/LeafSignal.v); MT/SignalLink.v proves it equal to lt_rec of MT/SignalModel.v
    def pre_proof(self, ctx):
        import leafgen
        return leafgen.regenerate(["LeafSignal.v"])

    def proofs(self, ctx):
        import leafgen
        from framework import LineCheck
        return leafgen.explain(
            LineCheck.proofs(self, ctx), "SignalLink", "C10_compare_is_the_code (MT/SignalLink.v: leaf_signal_compare / leaf_signal_lt / "
            "leaf_signal_eq)",
            "iv_signal_compare of the current src/iv_signal.c (signum, then IV_SIGNAL_FLAG_EXCLUSIVE first, then the address of the "
            "struct), as translated by gen/c2gallina.py into Gen/LeafSignal.v, is not the order lt_rec in which MT/SignalModel.v keeps "
            "its interest list any more")

    trusted = [
        "gen/c2gallina.py (class CTr: clang JSON AST -> Gen/LeafSignal.v, rerun on every check) and the C semantics Base/CSem.v: the whole "
        "function iv_signal_compare is translated and proved equal to lt_rec (C10_compare_is_the_code); the iv_container_of initialisers "
        "of its locals a, b are not translated (a, b = the two struct iv_signal objects), relational comparison of their addresses is "
        "comparison of integers (flat address space), IV_SIGNAL_FLAG_EXCLUSIVE is the macro-expanded constant of the current header",
        "virtual signals (harness/mt.c): sigaction / pthread_sigmask are interposed, a raised signal is delivered by calling the "
        "recorded handler at the target thread's next yield point when its virtual mask allows -- the harness's model of the kernel",
        "modelled, not verified: the two AVL trees are one list sorted by iv_signal_compare filtered by scope (C16 covers iv_avl.c); "
        "the raw event of an interest is a counter (C09); a thread with a readable raw event does not block (C02/C09: label LBlock)",
        "OCaml log parser ocaml/signal_drv.ml.in: log segments -> labels (sig_lock = the only spin lock; descriptors of an interest "
        "from the harness's `A gr` line); segments of mutexes, waits, kicks, closes, task/timer callbacks are dropped",
        "iv_signal_child_reset_postfork / registration in a forked child: modelled (child_reset_postfork); on the real code they run only "
        "in harness/signal_smoke.c (real fork, real kernel, no timing assumptions), not under the virtual fork, which shares memory "
        "with the parent",
        "signal masks: mt.c keeps a virtual mask per thread (pthread_sigmask, logged as Sm) and the sa_mask of every handler (logged in "
        "Sa); a pending signal is delivered at every yield point and right after a lock was acquired whenever the mask lets it through",
    ]
    assumptions = [
        "API contract (harness guards): an interest is unregistered by the thread that registered it, at most once, and its "
        "structure is not reused before that; signal numbers 1..63",
        "delivery instants are the yield points of the baton scheduler plus the instant right after a lock acquisition",
    ]
    rule = ("scenarios = 1-3 loop threads (+ optional plain raiser thread), 1-5 interests per thread over 1-2 signals with all four flag "
            "combinations, deliveries directed at every thread / process-directed / to a forked child, raised from tasks, timers, signal "
            "handlers (delivery during the handler) and other threads, register/unregister from tasks, timers and handlers, random baton "
            "schedules; plus the cross-scope hand-off family (the scenarios that exposed D5, fixed) and the tree-shape family (4-7 interests "
            "for three signal numbers in one tree, random registration order, every signal delivered).  non-trivial = the log has a delivery that posts (Fw between Sd and Sx) and one of: "
            "deliveries in >= 2 threads, a delivery during a user handler (Sd between Cg and the thread's next wait), a hand-off post "
            "inside an unregister, a process-set fallback (L s inside Sd..Sx), a delivery in a forked child; distinct = distinct case text")

    FLAGS = ["", "x", "t", "xt"]

    def gen(self, rng, d5_bias=False):
        nthr = rng.choice([1, 2, 2, 2, 3])
        sigs = rng.choice([[10], [10], [10, 12], [10, 12, 14], [10, 12, 14]])
        be = rng.choice(["et", "et", "et", "ep", "pp", "po"])
        secs = ["B" + be, "M%d" % rng.choice([100, 160])]
        if rng.random() < 0.15:
            secs.append("Xnoeventfd")
        plain = nthr < 3 and rng.random() < 0.3
        tot = nthr + (1 if plain else 0)
        secs.append("Z" + self.sched(rng, tot, rng.choice([0, 20, 60, 120])))

        def rsig():
            return rng.choice(sigs)

        def rflags():
            return rng.choice(self.FLAGS)

        def action(k, in_sig_handler=False):
            r = rng.random()
            if r < 0.34:
                return "sg%d@%d" % (rsig(), rng.randrange(tot))
            if r < 0.42:
                return "sg%d" % rsig()
            if r < 0.60:
                return "y"
            if r < 0.80:
                return "gu%d" % rng.randrange(5)
            if r < 0.94:
                return "gr%d=%d%s" % (rng.randrange(5), rsig(), rflags())
            return "sc%d" % rsig()

        def script(k, nmax=4, **kw):
            return " ".join(action(k, **kw) for _ in range(rng.randint(1, nmax)))

        for k in range(nthr):
            n = rng.randint(1, 4) if len(sigs) < 3 else rng.randint(3, 6)
            body = ["gr%d=%d%s" % (j, rsig(), rflags()) for j in range(n)]
            body.append("kr0")
            for tmr in range(rng.randint(0, 2)):
                body.append("tr%d+%d" % (tmr, rng.choice([1000, 500000, 2000000, 2000000])))
                secs.append("H%dt%d:%s" % (k, tmr, script(k)))
            if rng.random() < 0.8:
                body.append("tr7+900000000")
                secs.append("H%dt7:%s" % (k, " ".join("gu%d" % j for j in range(5))))
            rng.shuffle(body)
            secs.append("L%d:%s" % (k, " ".join(body)))
            secs.append("H%dk0:%s" % (k, script(k, 6)))
            for j in range(5):
                if rng.random() < 0.6:
                    lists = [script(k, 3, in_sig_handler=True) if rng.random() < 0.7 else "-" for _ in range(rng.randint(1, 3))]
                    lists.append(rng.choice(["-", "-", "gu%d" % j]))      # the last list repeats: it must not raise again
                    secs.append("H%dg%d:%s" % (k, j, "/".join(lists)))
        if plain:
            acts = []
            for _ in range(rng.randint(2, 8)):
                acts.append(rng.choice(["sg%d@%d" % (rsig(), rng.randrange(nthr)), "sg%d" % rsig(), "y", "y"]))
            secs.append("P%d:%s" % (nthr, " ".join(acts)))
        return ";".join(secs)

    def d5_family(self, rng):
        """cross-scope hand-off (defect D5, fixed): an exclusive this-thread interest is unregistered while a delivery is noted
        for it and only process-wide interests remain for the signal (in this or another thread): they must get it"""
        out = []
        for via in ("task", "timer", "handler"):
            for other_thr in (False, True):
                for shared_too in (False, True):
                    pw = "gr1=10%s" % ("" if shared_too else "x")
                    a = "sg10@0 y gu2"
                    secs = ["Bet", "M30", "Z" + self.sched(rng, 2 if other_thr else 1, 30)]
                    if via == "task":
                        l0 = "gr2=10xt kr0"
                        secs.append("H0k0:" + a)
                    elif via == "timer":
                        l0 = "gr2=10xt tr0+1000"
                        secs.append("H0t0:" + a)
                    else:
                        l0 = "gr2=10xt gr3=12t kr0"
                        secs += ["H0k0:sg12@0 y", "H0g3:" + a]
                    if other_thr:
                        secs += ["L0:" + l0, "L1:" + pw + " tr7+5000000", "H1t7:gu1"]
                    else:
                        secs += ["L0:" + pw + " " + l0 + " tr7+5000000", "H0t7:gu1 gu3"]
                    out.append(";".join(secs))
        return out

    def tree_family(self, rng, n):
        """one tree (process-wide or one thread's) holding 4-7 interests for three signal numbers, registered in random order
        (the AVL shape and the position of the first interest of a signal vary), then every signal is delivered: the walk
        must start at the FIRST interest of the signal in comparator order wherever it sits in the tree"""
        out = []
        for _ in range(n):
            tt = rng.random() < 0.4
            cnt = rng.randint(4, 7)
            regs = []
            for j in range(cnt):
                fl = rng.choice(["", "", "x"]) + ("t" if tt else "")
                regs.append("gr%d=%d%s" % (j, rng.choice([10, 12, 14]), fl))
            rng.shuffle(regs)
            two = (not tt) and rng.random() < 0.4
            raises = []
            for sg in rng.sample([10, 12, 14], 3):
                raises += ["sg%d@0" % sg, "y"]
            if rng.random() < 0.3:
                k = rng.randrange(cnt)
                raises = raises[:2] + ["gu%d" % k] + raises[2:]
            secs = ["B" + rng.choice(["et", "et", "ep", "po"]), "M80"]
            if two:
                secs.append("Z" + self.sched(rng, 2, 40))
                h = len(regs) // 2
                secs.append("L0:%s kr0 tr7+900000000" % " ".join(regs[:h]))
                secs.append("L1:%s tr7+900000000" % " ".join(r.replace("gr", "gr") for r in regs[h:]))
                secs.append("H1t7:" + " ".join("gu%d" % j for j in range(8)))
            else:
                secs.append("L0:%s kr0 tr7+900000000" % " ".join(regs))
            secs.append("H0k0:" + " ".join(raises))
            secs.append("H0t7:" + " ".join("gu%d" % j for j in range(8)))
            out.append(";".join(secs))
        return out

    def fixed_cases(self):
        return [
            "Bet;M20;L0:gr0=10 gr1=10x gr2=10xt kr0;H0k0:sg10@0 y;H0g2:gu2;H0g1:gu1;H0g0:gu0",
            # a signal whose last interest was unregistered while it was pending is delivered with the default disposition
            # (Sdfl) at the point where iv_signal_event restores the mask, between the clearing of `active` and the handler
            # (regression of the log parser: the look-ahead for the handler has to pass over such a record)
            "Bpo;M160;Z11111111111000000000;L0:gr1=14t gr2=14 kr0;H0k0:y sg14@1;L1:gr0=14 gr2=14 gr1=10t kr0;H1k0:sc10 sg10@0;H1g0:gu1/-/-/-",
            # first interest of the signal deep in the tree: X(12 shared) root, L(10), D(14), R(12 exclusive, sorts before X)
            "Bet;M40;L0:gr0=12 gr1=10 gr2=14 gr3=12x kr0 tr7+900000000;H0k0:sg12@0 y;H0t7:gu0 gu1 gu2 gu3",
            "Bet;M40;L0:gr0=12t gr1=10t gr2=14t gr3=12xt kr0 tr7+900000000;H0k0:sg12@0 y sg10@0 y sg14@0 y;H0t7:gu0 gu1 gu2 gu3",
            "Bet;M20;L0:gr1=10xt gr2=10xt kr0;H0k0:sg10@0 y gu1 gu2;H0g1:gu1;H0g2:gu2",
            "Bet;M30;Z01010101010101;L0:gr0=10 gr1=12x kr0;L1:gr0=10t gr1=10 kr0;H0k0:sg10@1 sg10@0 y sc10;H1k0:sg12 y;"
            "H0g0:gu0;H0g1:gu1;H1g0:gu0;H1g1:gu1",
            # delivery during the handler: it runs again; then unregisters itself
            "Bet;M20;L0:gr0=10x kr0;H0k0:sg10@0 y;H0g0:sg10@0 y/gu0",
            # hand-off inside one tree, process-wide exclusives in two threads
            "Bet;M30;Z0101010101;L0:gr0=10x kr0;L1:gr0=10x tr7+5000000;H0k0:sg10 y gu0;H1g0:gu0;H1t7:gu0",
            "Bpo;M20;L0:gr0=10 gr1=10 gr2=10x kr0;H0k0:sg10 y gu2 sg10 y;H0g0:gu0;H0g1:gu1",
            "Bet;Xnoeventfd;M20;L0:gr0=10t gr1=10t gr2=10 kr0;H0k0:sg10@0 y sc10 y;H0g0:gu0 gu1 gu2",
        ]

    def cases(self, ctx):
        rng = vlib.rng_for(ctx.seed, "C10")
        cases = list(self.fixed_cases())
        self.n_fixed = len(cases)
        d5 = self.d5_family(rng)
        self.d5_cases = set(d5)
        cases += d5
        trees = self.tree_family(rng, 300 if ctx.tier == "quick" else 6000)
        self.n_trees = len(trees)
        cases += trees
        n = 2000 if ctx.tier == "quick" else 40000
        for _ in range(n):
            cases.append(self.gen(rng))
        self.n_gen = n
        return cases

    def nontrivial(self, case, log):
        if not log:
            return False
        segs = [s.strip() for s in log.split(" | ")]
        in_sd, posted, thr_sd = {}, False, set()
        feature = False
        in_user = {}
        in_unreg = {}
        for s in segs:
            if ":" not in s:
                continue
            t, ev = s.split(":", 1)
            if ev.startswith("Sd "):
                in_sd[t] = True
                thr_sd.add(t)
                if in_user.get(t):
                    feature = True
            elif ev.startswith("Sx "):
                in_sd[t] = False
            elif ev.startswith("Fw ") and in_sd.get(t):
                posted = True
            elif ev.startswith("Fw ") and in_unreg.get(t):
                feature = True
            elif ev.startswith("L s") and in_sd.get(t):
                feature = True
            elif ev.startswith("Fc "):
                feature = True
            elif ev.startswith("Cg"):
                in_user[t] = True
            elif ev.startswith("W") or ev.startswith("Ck") or ev.startswith("Ct"):
                in_user[t] = False
            elif ev.startswith("a gu"):
                in_unreg[t] = True
            elif ev.startswith("A gu"):
                in_unreg[t] = False
        return posted and (feature or len(thr_sd) >= 2)

    def signature(self, case, why):
        return "c10:" + ("crash" if "CRASH" in why or "sanitizer" in why or "crashed" in why else "monitor")

    def distribution(self, cases):
        toks = [t for c in cases for s in c.split(";") if ":" in s for t in s.split(":", 1)[1].replace("/", " ").split()]
        return {"fixed": self.n_fixed, "cross_scope_handoff_family": len(self.d5_cases), "tree_shape_family": self.n_trees, "generated": self.n_gen,
                "threads": {str(k): sum(1 for c in cases if len(re.findall(r"(?:^|;)[LP]\d:", c)) == k) for k in (1, 2, 3, 4)},
                "registrations": sum(1 for t in toks if t.startswith("gr")),
                "by_flags": {f or "shared": sum(1 for t in toks if re.fullmatch(r"gr\d=\d+%s" % f, t)) for f in self.FLAGS},
                "unregistrations": sum(1 for t in toks if t.startswith("gu")),
                "raises_directed": sum(1 for t in toks if t.startswith("sg") and "@" in t),
                "raises_process": sum(1 for t in toks if t.startswith("sg") and "@" not in t),
                "child_deliveries": sum(1 for t in toks if t.startswith("sc")),
                "backends": {b: sum(1 for c in cases if c.startswith("B" + b)) for b in ("et", "ep", "pp", "po")}}


# ------------------------------------------------------------------------------------------------
class C11(SigBase):
    pid = "C11"
    extract_v = "Extract/ExtractWait.v"
    model_ml = "wait_model.ml"
    driver_in = "wait_drv.ml.in"
    open_module = "Wait_model"
    coq_targets = ["theories/MT/WaitModel.vo", "theories/MT/WaitProofs.vo",
                   "theories/Base/CSem.vo", "theories/Gen/LeafWait.vo", "theories/MT/WaitLink.vo"]

    # way (a) of the tie for the key of the interest tree: iv_wait_interest_compare and the two tests of __iv_wait_interest_find are
    # re-translated from the current source on every run (gen/c2gallina.py -> Gen/LeafWait.v); MT/WaitLink.v ties them to w_pid
    def sibling_stages(self):
        # anchors iv_signal.c (SIGCHLD interest, hand-off) and iv_avl.c: the C10 and C16 machinery
        import c16
        return [("C10", C10), ("C16", c16.C16)]

    def pre_proof(self, ctx):
        import leafgen
        return leafgen.regenerate(["LeafWait.v"])

    def proofs(self, ctx):
        import leafgen
        from framework import LineCheck
        return leafgen.explain(
            LineCheck.proofs(self, ctx), "WaitLink", "C11_compare_is_the_code (MT/WaitLink.v: leaf_wait_compare / leaf_wait_compare_eq / "
            "leaf_wait_find_hit / leaf_wait_find_left)",
            "iv_wait_interest_compare (three-way comparison of ->pid) or a test of __iv_wait_interest_find (`pid == p->pid`, "
            "`pid < p->pid`) of the current src/iv_wait.c, as translated by gen/c2gallina.py into Gen/LeafWait.v, is not the pid key under "
            "which MT/WaitModel.v looks interests up (find_pid) any more")

    trusted = [
        "gen/c2gallina.py (class CTr: clang JSON AST -> Gen/LeafWait.v, rerun on every check) and the C semantics Base/CSem.v: "
        "iv_wait_interest_compare and the two tests of __iv_wait_interest_find are translated and proved to be the comparison of the pids "
        "(C11_compare_is_the_code); the iv_container_of initialisers of the locals a, b are not translated",
        "virtual child processes (harness/mt.c): fork (parent side; the child is scripted), wait4 (returns the scripted status changes, "
        "first child in creation order that has one), kill, getpid are interposed; SIGCHLD is a virtual signal -- the harness's model of the kernel",
        "modelled, not verified: the tree iv_wait_interests is the list of registered, not-DEAD interests (C16 covers iv_avl.c); which thread's "
        "exclusive SIGCHLD interest is woken is C10's business and an oracle here (whatever thread logs the W4 segments); that a posted iv_event "
        "runs its handler before the thread blocks is C08 (label WBlock)",
        "OCaml log parser ocaml/wait_drv.ml.in: iv_wait_lock is identified by the W4/Fk/Ki segments it brackets; the steal of a completion is "
        "attached to the lock/unlock pair that precedes a Ci segment",
        "D1 (fixed in /repo): the pre-fix dereference is the outcome Crash of reap_one false; the harness always runs children without interest",
    ]
    assumptions = [
        "API contract (harness guards): at most one registered interest per pid; iv_wait_interest_register only for a child whose termination "
        "has not been reaped; register / unregister / kill from the registering thread",
        "wait4 reports each status change once and nothing for a pid after its termination was reaped (kernel)",
    ]
    rule = ("scenarios = 1-3 loop threads (+ optional plain thread), up to 6 children: strangers (never registered), children registered before / "
            "after their first status change, children spawned through the library that exit at once or later; status sequences stop / continue / "
            "exit n / killed by n in any order and from any thread, task, timer or wait handler, SIGCHLD received by any thread; unregistration "
            "from the handler (own and other interests), from tasks and timers; the kill helper before and after the death; random baton schedules; "
            "plus the spawn-race family (a second loop thread with an interest, the spawned child exits inside fork, the schedule hands the "
            "baton to the other thread after 0..47 yield points of the spawner, so also right after the fork). "
            "non-trivial = at least one status delivered (Ci) and one of: a reap (W4) in a thread other than the interest's, a child without "
            "interest reaped, >= 2 statuses in one completion, an unregistration inside a wait handler, a spawn whose child changed state inside "
            "fork, a refused kill; distinct = distinct case text")

    STS = ["s", "c", "e0", "e3", "k9", "k15", "s", "c"]

    def gen(self, rng):
        nthr = rng.choice([1, 2, 2, 3])
        be = rng.choice(["et", "et", "ep", "pp", "po"])
        plain = nthr < 3 and rng.random() < 0.3
        tot = nthr + (1 if plain else 0)
        secs = ["B" + be, "M%d" % rng.choice([160, 240]), "Z" + self.sched(rng, tot, rng.choice([0, 30, 80, 160]))]
        nstr = rng.randint(1, 4)            # children created as strangers: 0..nstr-1; spawned: nstr..5

        def status(c=None):
            c = rng.randrange(6) if c is None else c
            s = "cs%d=%s" % (c, rng.choice(self.STS))
            if rng.random() < 0.4:
                s += "@%d" % rng.randrange(nthr)
            return s

        def action(k):
            r = rng.random()
            if r < 0.45:
                return status()
            if r < 0.55:
                return "y"
            if r < 0.68:
                return "iu%d" % rng.randrange(4)
            if r < 0.78:
                return "ik%d=%d" % (rng.randrange(4), rng.choice([15, 9, 10]))
            if r < 0.90:
                return "ir%d=%d" % (rng.randrange(4), rng.randrange(nstr))
            return "is%d=%d%s" % (rng.randrange(4), rng.randint(nstr, 5), rng.choice(["", ".e0", ".k9", ".s", ".e7"]))

        def script(k, nmax=4):
            return " ".join(action(k) for _ in range(rng.randint(1, nmax)))

        for k in range(nthr):
            body = []
            if k == 0:
                body += ["cn%d" % c for c in range(nstr)]
                if rng.random() < 0.3:
                    body.append(status(rng.randrange(nstr)))      # a change before anybody is interested
            regs = []
            for j in range(rng.randint(1, 3)):
                if rng.random() < 0.7:
                    regs.append("ir%d=%d" % (j, rng.randrange(nstr)))
                else:
                    regs.append("is%d=%d%s" % (j, rng.randint(nstr, 5), rng.choice(["", "", ".e0", ".k9", ".s"])))
            extra = ["kr0"]
            for tmr in range(rng.randint(0, 2)):
                extra.append("tr%d+%d" % (tmr, rng.choice([1000, 500000, 2000000])))
                secs.append("H%dt%d:%s" % (k, tmr, script(k)))
            if rng.random() < 0.85:
                extra.append("tr7+900000000")
                secs.append("H%dt7:%s" % (k, " ".join("iu%d" % j for j in range(4))))
            rest = regs + extra
            rng.shuffle(rest)
            secs.append("L%d:%s" % (k, " ".join(body + rest)))
            secs.append("H%dk0:%s" % (k, script(k, 6)))
            for j in range(4):
                if rng.random() < 0.6:
                    lists = [script(k, 3) if rng.random() < 0.6 else "-" for _ in range(rng.randint(1, 4))]
                    secs.append("H%di%d:%s" % (k, j, "/".join(lists)))
        if plain:
            secs.append("P%d:%s" % (nthr, " ".join(rng.choice([status(), status(), "y"]) for _ in range(rng.randint(2, 8)))))
        return ";".join(secs)

    def fixed_cases(self):
        return [
            "Bet;M20;L0:gr0=10 gr1=10x gr2=10xt kr0;H0k0:sg10@0 y;H0g2:gu2;H0g1:gu1;H0g0:gu0",
            # a signal whose last interest was unregistered while it was pending is delivered with the default disposition
            # (Sdfl) at the point where iv_signal_event restores the mask, between the clearing of `active` and the handler
            # (regression of the log parser: the look-ahead for the handler has to pass over such a record)
            "Bpo;M160;Z11111111111000000000;L0:gr1=14t gr2=14 kr0;H0k0:y sg14@1;L1:gr0=14 gr2=14 gr1=10t kr0;H1k0:sc10 sg10@0;H1g0:gu1/-/-/-",
            # first interest of the signal deep in the tree: X(12 shared) root, L(10), D(14), R(12 exclusive, sorts before X)
            "Bet;M40;L0:gr0=12 gr1=10 gr2=14 gr3=12x kr0 tr7+900000000;H0k0:sg12@0 y;H0t7:gu0 gu1 gu2 gu3",
            "Bet;M40;L0:gr0=12t gr1=10t gr2=14t gr3=12xt kr0 tr7+900000000;H0k0:sg12@0 y sg10@0 y sg14@0 y;H0t7:gu0 gu1 gu2 gu3",
            "Bet;M20;L0:gr1=10xt gr2=10xt kr0;H0k0:sg10@0 y gu1 gu2;H0g1:gu1;H0g2:gu2",
            "Bet;M30;Z01010101010101;L0:gr0=10 gr1=12x kr0;L1:gr0=10t gr1=10 kr0;H0k0:sg10@1 sg10@0 y sc10;H1k0:sg12 y;"
            "H0g0:gu0;H0g1:gu1;H1g0:gu0;H1g1:gu1",
            # delivery during the handler: it runs again; then unregisters itself
            "Bet;M20;L0:gr0=10x kr0;H0k0:sg10@0 y;H0g0:sg10@0 y/gu0",
            # hand-off inside one tree, process-wide exclusives in two threads
            "Bet;M30;Z0101010101;L0:gr0=10x kr0;L1:gr0=10x tr7+5000000;H0k0:sg10 y gu0;H1g0:gu0;H1t7:gu0",
            "Bpo;M20;L0:gr0=10 gr1=10 gr2=10x kr0;H0k0:sg10 y gu2 sg10 y;H0g0:gu0;H0g1:gu1",
            "Bet;Xnoeventfd;M20;L0:gr0=10t gr1=10t gr2=10 kr0;H0k0:sg10@0 y sc10 y;H0g0:gu0 gu1 gu2",
        ]

    def cases(self, ctx):
        rng = vlib.rng_for(ctx.seed, "C10")
        cases = list(self.fixed_cases())
        self.n_fixed = len(cases)
        d5 = self.d5_family(rng)
        self.d5_cases = set(d5)
        cases += d5
        trees = self.tree_family(rng, 300 if ctx.tier == "quick" else 6000)
        self.n_trees = len(trees)
        cases += trees
        n = 2000 if ctx.tier == "quick" else 40000
        for _ in range(n):
            cases.append(self.gen(rng))
        self.n_gen = n
        return cases

    def nontrivial(self, case, log):
        if not log:
            return False
        segs = [s.strip() for s in log.split(" | ")]
        in_sd, posted, thr_sd = {}, False, set()
        feature = False
        in_user = {}
        in_unreg = {}
        for s in segs:
            if ":" not in s:
                continue
            t, ev = s.split(":", 1)
            if ev.startswith("Sd "):
                in_sd[t] = True
                thr_sd.add(t)
                if in_user.get(t):
                    feature = True
            elif ev.startswith("Sx "):
                in_sd[t] = False
            elif ev.startswith("Fw ") and in_sd.get(t):
                posted = True
            elif ev.startswith("Fw ") and in_unreg.get(t):
                feature = True
            elif ev.startswith("L s") and in_sd.get(t):
                feature = True
            elif ev.startswith("Fc "):
                feature = True
            elif ev.startswith("Cg"):
                in_user[t] = True
            elif ev.startswith("W") or ev.startswith("Ck") or ev.startswith("Ct"):
                in_user[t] = False
            elif ev.startswith("a gu"):
                in_unreg[t] = True
            elif ev.startswith("A gu"):
                in_unreg[t] = False
        return posted and (feature or len(thr_sd) >= 2)

    def signature(self, case, why):
        return "c10:" + ("crash" if "CRASH" in why or "sanitizer" in why or "crashed" in why else "monitor")

    def distribution(self, cases):
        toks = [t for c in cases for s in c.split(";") if ":" in s for t in s.split(":", 1)[1].replace("/", " ").split()]
        return {"fixed": self.n_fixed, "cross_scope_handoff_family": len(self.d5_cases), "tree_shape_family": self.n_trees, "generated": self.n_gen,
                "threads": {str(k): sum(1 for c in cases if len(re.findall(r"(?:^|;)[LP]\d:", c)) == k) for k in (1, 2, 3, 4)},
                "registrations": sum(1 for t in toks if t.startswith("gr")),
                "by_flags": {f or "shared": sum(1 for t in toks if re.fullmatch(r"gr\d=\d+%s" % f, t)) for f in self.FLAGS},
                "unregistrations": sum(1 for t in toks if t.startswith("gu")),
                "raises_directed": sum(1 for t in toks if t.startswith("sg") and "@" in t),
                "raises_process": sum(1 for t in toks if t.startswith("sg") and "@" not in t),
                "child_deliveries": sum(1 for t in toks if t.startswith("sc")),
                "backends": {b: sum(1 for c in cases if c.startswith("B" + b)) for b in ("et", "ep", "pp", "po")}}


# ------------------------------------------------------------------------------------------------
class C11(SigBase):
    pid = "C11"
    extract_v = "Extract/ExtractWait.v"
    model_ml = "wait_model.ml"
    driver_in = "wait_drv.ml.in"
    open_module = "Wait_model"
    coq_targets = ["theories/MT/WaitModel.vo", "theories/MT/WaitProofs.vo",
                   "theories/Base/CSem.vo", "theories/Gen/LeafWait.vo", "theories/Gen/Leaf.vo", "theories/MT/WaitLink.vo"]

    # way (a) of the tie for the key of the interest tree: iv_wait_interest_compare and the two tests of __iv_wait_interest_find are
    # re-translated from the current source on every run (gen/c2gallina.py -> Gen/LeafWait.v); MT/WaitLink.v ties them to w_pid
    def sibling_stages(self):
        # anchors iv_signal.c (SIGCHLD interest, hand-off) and iv_avl.c: the C10 and C16 machinery
        import c16
        return [("C10", C10), ("C16", c16.C16)]

    def pre_proof(self, ctx):
        import leafgen
        return leafgen.regenerate(["LeafWait.v"], legacy=True)      # + Gen/Leaf.v: iv_wait_status_dead (whole function)

    def proofs(self, ctx):
        import leafgen
        from framework import LineCheck
        return leafgen.explain(
            LineCheck.proofs(self, ctx), "WaitLink", "C11_compare_is_the_code (MT/WaitLink.v: leaf_wait_compare / leaf_wait_compare_eq / "
            "leaf_wait_find_hit / leaf_wait_find_left)",
            "iv_wait_interest_compare (three-way comparison of ->pid) or a test of __iv_wait_interest_find (`pid == p->pid`, "
            "`pid < p->pid`) of the current src/iv_wait.c, as translated by gen/c2gallina.py into Gen/LeafWait.v, is not the pid key under "
            "which MT/WaitModel.v looks interests up (find_pid) any more")

    trusted = [
        "gen/c2gallina.py (class CTr: clang JSON AST -> Gen/LeafWait.v, rerun on every check) and the C semantics Base/CSem.v: "
        "iv_wait_interest_compare and the two tests of __iv_wait_interest_find are translated and proved to be the comparison of the pids "
        "(C11_compare_is_the_code); the iv_container_of initialisers of the locals a, b are not translated",
        "virtual child processes (harness/mt.c): fork (parent side; the child is scripted), wait4 (returns the scripted status changes, "
        "first child in creation order that has one), kill, getpid are interposed; SIGCHLD is a virtual signal -- the harness's model of the kernel",
        "modelled, not verified: the tree iv_wait_interests is the list of registered, not-DEAD interests (C16 covers iv_avl.c); which thread's "
        "exclusive SIGCHLD interest is woken is C10's business and an oracle here (whatever thread logs the W4 segments); that a posted iv_event "
        "runs its handler before the thread blocks is C08 (label WBlock)",
        "OCaml log parser ocaml/wait_drv.ml.in: iv_wait_lock is identified by the W4/Fk/Ki segments it brackets; the steal of a completion is "
        "attached to the lock/unlock pair that precedes a Ci segment",
        "D1 (fixed in /repo): the pre-fix dereference is the outcome Crash of reap_one false; the harness always runs children without interest",
    ]
    assumptions = [
        "API contract (harness guards): at most one registered interest per pid; iv_wait_interest_register only for a child whose termination "
        "has not been reaped; register / unregister / kill from the registering thread",
        "wait4 reports each status change once and nothing for a pid after its termination was reaped (kernel)",
    ]
    rule = ("scenarios = 1-3 loop threads (+ optional plain thread), up to 6 children: strangers (never registered), children registered before / "
            "after their first status change, children spawned through the library that exit at once or later; status sequences stop / continue / "
            "exit n / killed by n in any order and from any thread, task, timer or wait handler, SIGCHLD received by any thread; unregistration "
            "from the handler (own and other interests), from tasks and timers; the kill helper before and after the death; random baton schedules; "
            "plus the spawn-race family (a second loop thread with an interest, the spawned child exits inside fork, the schedule hands the "
            "baton to the other thread after 0..47 yield points of the spawner, so also right after the fork). "
            "non-trivial = at least one status delivered (Ci) and one of: a reap (W4) in a thread other than the interest's, a child without "
            "interest reaped, >= 2 statuses in one completion, an unregistration inside a wait handler, a spawn whose child changed state inside "
            "fork, a refused kill; distinct = distinct case text")

    STS = ["s", "c", "e0", "e3", "k9", "k15", "s", "c"]

    def gen(self, rng):
        nthr = rng.choice([1, 2, 2, 3])
        be = rng.choice(["et", "et", "ep", "pp", "po"])
        plain = nthr < 3 and rng.random() < 0.3
        tot = nthr + (1 if plain else 0)
        secs = ["B" + be, "M%d" % rng.choice([160, 240]), "Z" + self.sched(rng, tot, rng.choice([0, 30, 80, 160]))]
        nstr = rng.randint(1, 4)            # children created as strangers: 0..nstr-1; spawned: nstr..5

        def status(c=None):
            c = rng.randrange(6) if c is None else c
            s = "cs%d=%s" % (c, rng.choice(self.STS))
            if rng.random() < 0.4:
                s += "@%d" % rng.randrange(nthr)
            return s

        def action(k):
            r = rng.random()
            if r < 0.45:
                return status()
            if r < 0.55:
                return "y"
            if r < 0.68:
                return "iu%d" % rng.randrange(4)
            if r < 0.78:
                return "ik%d=%d" % (rng.randrange(4), rng.choice([15, 9, 10]))
            if r < 0.90:
                return "ir%d=%d" % (rng.randrange(4), rng.randrange(nstr))
            return "is%d=%d%s" % (rng.randrange(4), rng.randint(nstr, 5), rng.choice(["", ".e0", ".k9", ".s", ".e7"]))

        def script(k, nmax=4):
            return " ".join(action(k) for _ in range(rng.randint(1, nmax)))

        for k in range(nthr):
            body = []
            if k == 0:
                body += ["cn%d" % c for c in range(nstr)]
                if rng.random() < 0.3:
                    body.append(status(rng.randrange(nstr)))      # a change before anybody is interested
            regs = []
            for j in range(rng.randint(1, 3)):
                if rng.random() < 0.7:
                    regs.append("ir%d=%d" % (j, rng.randrange(nstr)))
                else:
                    regs.append("is%d=%d%s" % (j, rng.randint(nstr, 5), rng.choice(["", "", ".e0", ".k9", ".s"])))
            extra = ["kr0"]
            for tmr in range(rng.randint(0, 2)):
                extra.append("tr%d+%d" % (tmr, rng.choice([1000, 500000, 2000000])))
                secs.append("H%dt%d:%s" % (k, tmr, script(k)))
            if rng.random() < 0.85:
                extra.append("tr7+900000000")
                secs.append("H%dt7:%s" % (k, " ".join("iu%d" % j for j in range(4))))
            rest = regs + extra
            rng.shuffle(rest)
            secs.append("L%d:%s" % (k, " ".join(body + rest)))
            secs.append("H%dk0:%s" % (k, script(k, 6)))
            for j in range(4):
                if rng.random() < 0.6:
                    lists = [script(k, 3) if rng.random() < 0.6 else "-" for _ in range(rng.randint(1, 4))]
                    secs.append("H%di%d:%s" % (k, j, "/".join(lists)))
        if plain:
            secs.append("P%d:%s" % (nthr, " ".join(rng.choice([status(), status(), "y"]) for _ in range(rng.randint(2, 8)))))
        return ";".join(secs)

    def gen_fork_overlap(self, rng):
        """two loop threads that spawn children (fork with the library's atfork handlers) at the same time, under
        schedules that switch threads at every lock / unlock: the save / restore of the signal mask around fork is
        per thread (harness rule of mt.c: fork returns with the caller's mask unchanged; the threads' masks differ)"""
        be = rng.choice(["et", "et", "ep", "pp"])
        z = "".join(rng.choice("01") for _ in range(rng.choice([120, 200, 300])))
        if rng.random() < 0.5:
            z = "01" * rng.randint(20, 100) + z
        secs = ["B" + be, "M160", "Z" + z]
        kids = [1, 2, 3, 4, 5]
        rng.shuffle(kids)
        a, b = kids[:rng.randint(1, 3)], kids[3:]
        end = rng.choice(["", ".e0", ".k9"])
        secs.append("L0:cn0 " + " ".join("is%d=%d%s" % (j, c, end) for j, c in enumerate(a)) + " kr0 tr7+900000000")
        secs.append("L1:" + " ".join("is%d=%d%s" % (j, c, end) for j, c in enumerate(b)) + " kr0 tr7+900000000")
        for k in (0, 1):
            secs.append("H%dt7:%s" % (k, " ".join("iu%d" % j for j in range(4))))
            secs.append("H%dk0:%s" % (k, rng.choice(["y", "cs%d=e0" % rng.choice(kids), "y y"])))
        return ";".join(secs)

    def fixed_cases(self):
        return [
            "Bet;M30;L0:cn0 cn1 ir0=0 kr0;H0k0:cs1=e3 cs0=s cs0=c cs0=k9;H0i0:-/-/iu0",
            # two loop threads delivering at the same time: thread 0 is inside a handler (which spawns) while thread 1's
            # delivery loop ends (minimised from the run that exposed seed C11_7: a process-wide handled_wait_interest)
            "Bet;M240;Z00001111111112121010101010222121212222000000011200000000000000001112222222221111;L0:cn0 cn2 cs0=k15 kr0 ir2=0 is1=5.s;H0k0:cs5=k9;H0i1:is0=4.s/-/-;L1:ir0=2;P2:cs2=s y",
            # D1 shape: a stranger terminates while an interest for another child is registered
            "Bet;M30;L0:cn0 cn1 ir0=0 kr0 tr7+5000000;H0k0:cs1=k9;H0t7:iu0",
            "Bet;M30;L0:cn0 ir0=0 kr0 tr7+5000000;H0k0:cs0=e0;H0i0:ik0=15 iu0",
            # spawn, child exits inside fork
            "Bet;M30;L0:is0=0.e0 tr7+5000000;H0i0:iu0;H0t7:iu0",
            "Bet;M40;Z0101010101010101;L0:is0=0.e0 cn1 kr0 tr7+5000000;L1:ir0=1 tr7+5000000;H0k0:cs1=s@1 cs1=c@0 cs1=e1;H0i0:iu0;H1i0:-/-/iu0;H0t7:iu0;H1t7:iu0",
            # unregister another interest from the handler while its events are queued
            "Bet;M30;L0:cn0 cn1 ir0=0 ir1=1 kr0 tr7+5000000;H0k0:cs0=s cs1=s cs1=c;H0i0:iu1;H0t7:iu0 iu1",
            # several statuses in one completion, the first handler call unregisters: the rest must not be delivered
            "Bet;M30;L0:cn0 ir0=0 kr0;H0k0:cs0=s cs0=c cs0=k9;H0i0:iu0",
            "Bet;M30;L0:cn0 cn1 ir0=0 ir1=1 kr0 tr7+5000000;H0k0:cs0=s cs0=c cs1=s cs0=e0;H0i0:iu0 iu1;H0t7:iu0 iu1",
            # two children exit before the SIGCHLD interest runs: one SIGCHLD, the reaper must drain both
            "Bet;M30;L0:cn0 cn1 ir0=0 ir1=1 kr0 tr7+5000000;H0k0:cs0=e0 cs1=e0;H0t7:iu0 iu1",
            # stop / continue are reported only because the library asks for them (WUNTRACED | WCONTINUED)
            "Bet;M30;L0:cn0 ir0=0 kr0 tr7+5000000;H0k0:cs0=s;H0t7:iu0",
            "Bet;M30;L0:is0=0 kr0 tr7+5000000;H0k0:cs0=s cs0=c;H0t7:iu0",
            # kill helper after the death was reaped but before the handler ran
            "Bet;M30;L0:cn0 ir0=0 kr0 tr7+5000000;H0k0:cs0=k9 y ik0=15;H0t7:ik0=9 iu0",
        ]

    @staticmethod
    def spawn_race(k, st, spawner_first):
        """another loop thread owns a wait interest (so it is a SIGCHLD reaper); the spawned child changes state inside fork;
        the schedule runs the spawner for k yield points and then only the other thread: for the right k the other thread
        handles the SIGCHLD while the spawner is between fork and the tree insertion"""
        if spawner_first:
            return ("Bet;M80;Z%s;L0:cn0 kr0 tr7+900000000;H0k0:is0=1.%s;H0i0:iu0;H0t7:iu0;L1:ir0=0 tr7+900000000;H1t7:iu0"
                    % ("0" * k + "1" * 60, st))
        return ("Bet;M80;Z%s;L0:cn0 ir0=0 tr7+900000000;H0t7:iu0;L1:kr0 tr7+900000000;H1k0:is0=1.%s;H1i0:iu0;H1t7:iu0"
                % ("1" * k + "0" * 60, st))

    def spawn_race_family(self):
        out = []
        for st in ("e0", "k9"):
            for first in (False, True):
                for k in range(0, 48):
                    out.append(self.spawn_race(k, st, first))
        return out

    def widen(self, ctx, case):
        out = SigBase.widen(self, ctx, case)
        if re.search(r"is\d=\d", case):
            out += self.spawn_race_family()
        return out

    def cases(self, ctx):
        rng = vlib.rng_for(ctx.seed, "C11")
        cases = list(self.fixed_cases())
        self.n_fixed = len(cases)
        race = self.spawn_race_family()
        self.n_race = len(race)
        cases += race
        n = 1400 if ctx.tier == "quick" else 40000
        for _ in range(n):
            cases.append(self.gen(rng))
        self.n_gen = n
        # fork() failing (EAGAIN) inside iv_wait_interest_register_spawn (scenario option Xforkfail=<k>, seed C11_9): the
        # failed interest must leave nothing behind -- in particular the process-wide pid tree, which holds the other
        # threads' interests, is untouched -- and everybody else's statuses still arrive
        cases += ["Bet;M40;Xforkfail=2;L0:is0=0 is1=1 kr0 tr7+5000000;H0k0:cs0=e3;H0i0:iu0;H0t7:iu0",
                  "Bet;M40;Xforkfail=1;L0:is0=0 is1=1.e2 kr0 tr7+5000000;H0i1:iu1;H0t7:iu1",
                  "Bet;M40;Xforkfail=2;Z0101010101;L0:is0=0 cn2 kr0 tr7+5000000;L1:is0=1 ir1=2 tr7+5000000;H0k0:cs0=e3 cs2=e1;"
                  "H0i0:iu0;H1i1:iu1;H0t7:iu0;H1t7:iu1"]
        nff = 120 if ctx.tier == "quick" else 3000
        k = 0
        while k < nff:
            c = self.gen(rng)
            if "is" not in c.split(";", 2)[-1]:
                continue
            secs = c.split(";")
            secs.insert(2, "Xforkfail=%d" % rng.choice([1, 1, 2, 2, 3]))
            cases.append(";".join(secs))
            k += 1
        return cases

    def nontrivial(self, case, log):
        if not log or " Ci" not in log.replace(":Ci", " Ci"):
            return False
        segs = [s.strip() for s in log.split(" | ")]
        owner = {}          # pid -> thread of the interest
        feature = False
        prev = {}
        in_ci = {}
        for s in segs:
            if ":" not in s:
                continue
            t, ev = s.split(":", 1)
            m = re.match(r"a ir\d+=\d+ pid=(\d+)", ev)
            if m:
                owner[m.group(1)] = t
            m = re.match(r"A is\d+ pid=(\d+)", ev)
            if m:
                owner[m.group(1)] = t
            m = re.match(r"W4 (\d+) \d+( o=\S+)?$", ev.strip())
            if m and m.group(1) != "0":
                if m.group(1) not in owner or owner[m.group(1)] != t:
                    feature = True
            if ev.startswith("Ci"):
                if prev.get(t, "").startswith("Ci"):
                    feature = True
                in_ci[t] = True
            elif ev.startswith("W") or ev.startswith("Ck") or ev.startswith("Ct"):
                in_ci[t] = False
            if ev.startswith("a iu") and in_ci.get(t):
                feature = True
            if ev.startswith("a cs") and prev.get(t, "").startswith("Fk"):
                feature = True
            if re.match(r"A ik\d+=-", ev):
                feature = True
            prev[t] = ev
        return feature

    def signature(self, case, why):
        return "c11:" + ("crash" if "CRASH" in why or "sanitizer" in why or "crashed" in why else "monitor")

    def distribution(self, cases):
        toks = [t for c in cases for s in c.split(";") if ":" in s for t in s.split(":", 1)[1].replace("/", " ").split()]
        return {"fixed": self.n_fixed, "spawn_race_family": self.n_race, "generated": self.n_gen,
                "strangers_created": sum(1 for t in toks if t.startswith("cn")),
                "register": sum(1 for t in toks if t.startswith("ir")), "register_spawn": sum(1 for t in toks if t.startswith("is")),
                "spawn_child_changes_inside_fork": sum(1 for t in toks if t.startswith("is") and "." in t),
                "unregister": sum(1 for t in toks if t.startswith("iu")), "kill": sum(1 for t in toks if t.startswith("ik")),
                "status_changes": {k: sum(1 for t in toks if re.match(r"cs\d=%s" % k, t)) for k in ("s", "c", "e", "k")},
                "status_with_chosen_receiver": sum(1 for t in toks if t.startswith("cs") and "@" in t)}


# ------------------------------------------------------------------------------------------------
class C19(SigBase):
    pid = "C19"
    extract_v = "Extract/ExtractPopen.v"
    model_ml = "popen_model.ml"
    driver_in = "popen_drv.ml.in"
    open_module = "Popen_model"
    coq_targets = ["theories/Misc/PopenModel.vo", "theories/Misc/PopenProofs.vo",
                   "theories/Base/CSem.vo", "theories/Gen/LeafPopen.vo", "theories/Misc/PopenLink.vo"]

    # way (a) of the tie for the escalation decision: `signum = (ch->num_kills++ < MAX_SIGTERM_COUNT) ? SIGTERM : SIGKILL`, the
    # `tv_sec += SIGNAL_INTERVAL` re-arm and the `num_kills = 0` of the close are re-translated from the current source on every
    # run (gen/c2gallina.py -> Gen/LeafPopen.v); Misc/PopenLink.v proves them equal to expected_sig / INTERVAL / 0 of the model
    def sibling_stages(self):
        # anchor iv_wait.c: the C11 machinery
        return [("C11", C11)]

    def pre_proof(self, ctx):
        import leafgen
        return leafgen.regenerate(["LeafPopen.v"])

    def proofs(self, ctx):
        import leafgen
        from framework import LineCheck
        return leafgen.explain(
            LineCheck.proofs(self, ctx), "PopenLink", "C19_escalation_is_the_code (Misc/PopenLink.v: leaf_signum_all / "
            "leaf_signum_values / leaf_rearm / timer_handler_is_the_code / close_is_the_code)",
            "the escalation decision `signum = (ch->num_kills++ < MAX_SIGTERM_COUNT) ? SIGTERM : SIGKILL`, the re-arm "
            "`expires.tv_sec += SIGNAL_INTERVAL` of iv_popen_running_child_timer or the `ch->num_kills = 0` of iv_popen_request_close in "
            "the current src/iv_popen.c, as translated by gen/c2gallina.py into Gen/LeafPopen.v, is not the model's expected_sig "
            "(SIGTERM for counter < 5, then SIGKILL; counter + 1) / INTERVAL (5 s) / 0 any more")

    corr_name = ("acceptance of the observable events of every popen child (close, signals with their times, reaps, loop exit) in the "
                 "implementation's log by the Coq acceptor pcheck of Misc/PopenModel.v")
    trusted = [
        "gen/c2gallina.py (class CTr: clang JSON AST -> Gen/LeafPopen.v, rerun on every check) and the C integer semantics Base/CSem.v "
        "(None = signed overflow): the escalation statement, the 5 s re-arm and the counter reset are translated and proved equal to the "
        "model's (C19_escalation_is_the_code); the int counter and time_t are unbounded integers in the model (ranges are hypotheses: "
        "2^31 signals, 2^63 s); `expires = iv_now` (struct assignment) is not translated",
        "virtual child processes and virtual time (harness/mt.c, vk.c): fork (parent side only), wait4, kill, the clock that jumps to the "
        "earliest deadline when every thread is blocked -- the harness's model of the kernel; the child's reaction to signals is scripted "
        "by the scenario (kill hook)",
        "the child side of iv_popen (iv_popen_child: open /dev/null, dup2, close, execvp) never runs under the virtual fork: "
        "C19_submit_result is a transcription lemma about Misc/PopenModel.child_script; the parent side (which end is returned, the other "
        "end closed) is observed on the real code",
        "modelled, not verified: the sequential model of Misc/PopenModel.v part 1 abstracts iv_wait (C11) as an interest with DEAD flag and "
        "queue and the timer (C04) as an optional expiry; the tie to the code is the acceptor on the observable events, not trace equality",
        "OCaml log parser ocaml/popen_drv.ml.in (per-pid projection; times are iv_now as logged by the harness next to each kill/close)",
    ]
    assumptions = [
        "'ended' means 'termination reaped': a signal to a zombie that is not reaped yet cannot be excluded by a user-space library",
        "nobody but the library reaps the child (no foreign waitpid); the request is closed at most once and not used afterwards",
    ]
    rule = ("scenarios = 1-3 popen requests (types r / w) in 1-2 loop threads, optionally a further thread whose own wait interest makes it "
            "the reaper; child behaviours: exits at once (inside fork), dies from the n-th SIGTERM (n = 1..6, i.e. also only from SIGKILL), "
            "ignores SIGTERM, exits or is killed on its own at a scripted virtual time (before the close, between two signals, after the "
            "SIGKILL phase began), stop / continue noise; close from a task (at once), from a timer at a scripted time, from a handler, or "
            "never; clock disturbances (ca) in a third of the cases (then signal times are checked as >= due, else = due). non-trivial = "
            "a close and at least one signal, and one of: a SIGKILL, a reap between two signals, a close after the reaped death, a reap by "
            "a thread other than the owner; distinct = distinct case text")

    def gen(self, rng):
        nthr = rng.choice([1, 1, 2])
        reaper = rng.random() < 0.35
        tot = nthr + (1 if reaper else 0)
        be = rng.choice(["et", "et", "ep", "pp", "po"])
        secs = ["B" + be, "M%d" % rng.choice([240, 320]), "Z" + self.sched(rng, tot, rng.choice([0, 40, 120]) if tot > 1 else 0)]
        disturb = rng.random() < 0.33
        child = 0
        for k in range(nthr):
            body, tm = [], 0
            for j in range(rng.randint(1, 2)):
                c = child
                child += 1
                beh = rng.choice(["e0", "e3", "t1", "t1", "t2", "t3", "t5", "t6", "i", "i"])
                body.append("pr%d=%s.%d.%s" % (j, rng.choice("rw"), c, beh))
                how = rng.random()
                if how < 0.3:
                    body.append("kr%d" % j)
                    secs.append("H%dk%d:%s" % (k, j, rng.choice(["pc%d", "y pc%d", "pc%d y"]) % j))
                elif how < 0.85 and tm < 6:
                    body.append("tr%d+%d" % (tm, rng.choice([1000, 3000000000, 5000000000, 12000000000])))
                    secs.append("H%dt%d:%s" % (k, tm, "pc%d" % j))
                    tm += 1
                # a spontaneous change of the child at some virtual time
                if rng.random() < 0.6 and tm < 6:
                    at = rng.choice([500, 2000000000, 5000000000, 7000000000, 13000000000, 26000000000, 27000000000, 33000000000])
                    what = rng.choice(["cs%d=e0", "cs%d=k9", "cs%d=e5", "cs%d=s", "cs%d=s cs%d=c", "cs%d=c"]).replace("%d", str(c))
                    if disturb and rng.random() < 0.5:
                        what = "%s %s" % (" ".join(["ca2000000000"] * rng.randint(1, 3)), what)
                    body.append("tr%d+%d" % (tm, at))
                    secs.append("H%dt%d:%s" % (k, tm, what))
                    tm += 1
            if disturb and tm < 6:
                body.append("tr%d+%d" % (tm, rng.choice([4000000000, 9000000000])))
                secs.append("H%dt%d:%s" % (k, tm, " ".join(["ca%d" % rng.choice([1000000000, 2000000000])] * rng.randint(1, 4))))
            rng.shuffle(body)
            secs.append("L%d:%s" % (k, " ".join(body)))
        if reaper:
            k = nthr
            secs.append("L%d:cn9 ir0=9 tr7+%d" % (k, rng.choice([40000000000, 60000000000])))
            secs.append("H%dt7:cs9=e0" % k)
            secs.append("H%di0:iu0" % k)
        return ";".join(secs)

    def fixed_cases(self):
        out = []
        # every death point relative to the signalling sequence: close at 1 s, the child dies on its own at T
        for T in (500000000, 1000000000, 1000000001, 3000000000, 6000000000, 6000000001, 11000000000, 16000000000, 21000000000, 23000000000,
                  26000000000, 28000000000, 31000000000, 36000000000):
            out.append("Bet;M160;L0:pr0=r.0.i tr0+%d tr1+1000000000;H0t0:cs0=e0;H0t1:pc0" % T)
        for b in ("e0", "t1", "t2", "t3", "t4", "t5", "t6", "i"):
            for ty in "rw":
                out.append("Bet;M160;L0:pr0=%s.0.%s kr0;H0k0:pc0" % (ty, b))
        out.append("Bet;M160;Z0101010101010101010101;L0:pr0=r.0.t2 kr0;H0k0:pc0;L1:cn9 ir0=9 tr7+40000000000;H1t7:cs9=e0;H1i0:iu0")
        out.append("Bet;M160;L0:pr0=r.0.i pr1=w.1.t1 kr0 tr0+7000000000;H0k0:pc0 pc1;H0t0:cs0=s cs0=c")
        return out

    def cases(self, ctx):
        rng = vlib.rng_for(ctx.seed, "C19")
        cases = list(self.fixed_cases())
        self.n_fixed = len(cases)
        n = 1200 if ctx.tier == "quick" else 30000
        for _ in range(n):
            cases.append(self.gen(rng))
        self.n_gen = n
        return cases

    def nontrivial(self, case, log):
        if not log or "A pc" not in log or ":Ki " not in log:
            return False
        segs = [s.strip() for s in log.split(" | ")]
        owner, kills, feature, reaped_dead, closed = {}, {}, False, set(), set()
        thr_req = {}
        for s in segs:
            if ":" not in s:
                continue
            t, ev = s.split(":", 1)
            m = re.match(r"A pr(\d+) .*pid=(\d+)", ev)
            if m:
                owner[m.group(2)] = t
                thr_req[(t, m.group(1))] = m.group(2)
            m = re.match(r"Ki (\d+) (\d+) ok", ev)
            if m:
                kills[m.group(1)] = kills.get(m.group(1), 0) + 1
                if m.group(2) == "9":
                    feature = True
            m = re.match(r"W4 (\d+) (\d+)( o=\S+)?$", ev.strip())
            if m and m.group(1) in owner:
                st = int(m.group(2))
                if owner[m.group(1)] != t:
                    feature = True
                if st % 128 != 127:
                    reaped_dead.add(m.group(1))
                    if kills.get(m.group(1), 0) >= 1 and st not in (9, 15):
                        feature = True          # died on its own between two signals
            m = re.match(r"a pc(\d+)", ev)
            if m and thr_req.get((t, m.group(1))) in reaped_dead:
                feature = True
        return feature

    def signature(self, case, why):
        return "c19:" + ("crash" if "CRASH" in why or "sanitizer" in why or "crashed" in why else "monitor")

    def distribution(self, cases):
        toks = [t for c in cases for s in c.split(";") if ":" in s for t in s.split(":", 1)[1].replace("/", " ").split()]
        beh = {}
        for t in toks:
            m = re.match(r"pr\d=[rw]\.\d+\.(\w+)", t)
            if m:
                beh[m.group(1)] = beh.get(m.group(1), 0) + 1
        return {"fixed": self.n_fixed, "generated": self.n_gen, "requests": sum(beh.values()), "behaviours": beh,
                "type_r": sum(1 for t in toks if re.match(r"pr\d=r", t)), "type_w": sum(1 for t in toks if re.match(r"pr\d=w", t)),
                "closes": sum(1 for t in toks if t.startswith("pc")),
                "spontaneous_changes": sum(1 for t in toks if t.startswith("cs")),
                "clock_disturbed_cases": sum(1 for c in cases if re.search(r"[: ]ca\d", c)),
                "with_foreign_reaper_thread": sum(1 for c in cases if "cn9" in c)}


# ---- real fork/exec smoke run for C19 (the only place where the child side of iv_popen executes) ----
def _c19_smoke(self, ctx):
    import subprocess
    d = os.path.join(ctx.work, "smoke")
    ok, out = vlib.cc_build(d, "popen_smoke", ["popen_smoke.c"], vlib.LIB_SRCS)
    if not ok:
        return "popen_smoke does not build: " + out[-400:]
    try:
        p = subprocess.run([os.path.join(d, "popen_smoke")], stdout=subprocess.PIPE, stderr=subprocess.PIPE, text=True,
                           errors="replace", timeout=120, env=dict(os.environ, **runner.ASAN_ENV))
    except subprocess.TimeoutExpired:
        return "popen_smoke: timeout"
    if p.returncode != 0 or not p.stdout.startswith("OK"):
        return "popen_smoke (real fork/exec, real kernel): %s %s" % (p.stdout.strip(), p.stderr[-600:])
    return None


_c19_correspond = C19.correspond


def _c19_correspond_with_smoke(self, ctx, cases):
    st = _c19_correspond(self, ctx, cases)
    if len(cases) > 10:
        why = _c19_smoke(self, ctx)
        self.smoke_ok = why is None
        if why:
            st["crashes"].append((0, why))
    return st


C19.correspond = _c19_correspond_with_smoke


# ---- real fork smoke run for C10 (the only place where iv_signal_register runs in a forked child) ----
def _c10_smoke(self, ctx):
    import subprocess
    d = os.path.join(ctx.work, "sigsmoke")
    ok, out = vlib.cc_build(d, "signal_smoke", ["signal_smoke.c"], vlib.LIB_SRCS)
    if not ok:
        return "signal_smoke does not build: " + out[-400:]
    try:
        p = subprocess.run([os.path.join(d, "signal_smoke")], stdout=subprocess.PIPE, stderr=subprocess.PIPE, text=True,
                           errors="replace", timeout=120, env=dict(os.environ, **runner.ASAN_ENV))
    except subprocess.TimeoutExpired:
        return "signal_smoke: timeout"
    if p.returncode != 0 or not p.stdout.startswith("OK"):
        return "signal_smoke (real fork, real kernel): %s %s" % (p.stdout.strip(), p.stderr[-600:])
    return None


_c10_correspond = C10.correspond


def _c10_correspond_with_smoke(self, ctx, cases):
    st = _c10_correspond(self, ctx, cases)
    if len(cases) > 10:
        why = _c10_smoke(self, ctx)
        if why:
            st["crashes"].append((0, why))
    return st


C10.correspond = _c10_correspond_with_smoke
