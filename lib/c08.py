"""C08 -- iv_event: posts from any thread are never lost, over-delivered or misrouted.
Proofs in MT/EventMTProofs.v (+ EventMTMon.v); tie = the real iv_event.c / iv_fd_epoll.c / iv_event_raw_posix.c with
real threads under the baton scheduler (harness/ivmt.c): every log must be ACCEPTED by the extracted transition system
of MT/EventMT.v (one instance per owner loop) and pass the extracted monitor (posts vs handler starts per event,
handler thread = owner, nothing owed when the run ends with the owner blocked)."""
import os
import re

import vlib
from mtcheck import MTCheck

THREAD_CHARS = "0123456789abcdef"


def sections(case):
    return [s.strip() for s in case.split(";") if s.strip()]


class C08(MTCheck):
    pid = "C08"

    def sibling_stages(self):
        # "the owner included ... the owner's loop activity never leaves the owner blocked with an undelivered post": posts made
        # by the owner itself are delivered through the loop's internal task and depend on the main loop's timeout logic
        # (iv_main_posix.c / iv_fd.c), which the core-loop machinery drives: C07 (clauses 708 / 710: no sleeping wait, no
        # hang with an undelivered self-post; 602 / 604 for the internal task)
        import corecheck
        return [("C07", corecheck.C07)]
    extract_v = "Extract/ExtractEventMT.v"
    model_ml = "eventmt_model.ml"
    driver_in = "eventmt_drv.ml.in"
    open_module = "Eventmt_model"
    coq_targets = ["theories/MT/EventMT.vo", "theories/MT/EventMTLemmas.vo", "theories/MT/EventMTProofs.vo",
                   "theories/MT/EventMTMon.vo",
                   "theories/Base/CSem.vo", "theories/Gen/LeafCoreEvent.vo", "theories/MT/EventLink.vo"]

    # way (a) of the tie for the poster side: the tests and stores of iv_event_post are re-translated from the current source on
    # every run (gen/c2gallina.py -> Gen/LeafCoreEvent.v); MT/EventLink.v proves that post_cs of MT/EventMT.v appends / records
    # the post flag exactly as the translated code does and that the wake-up the model accepts is the one the translated
    # if-chain selects (theorems C08_post_cs_is_the_code, C08_accepted_wake_is_the_code)
    def pre_proof(self, ctx):
        import leafgen
        return leafgen.regenerate(["LeafCoreEvent.v"])

    def proofs(self, ctx):
        import leafgen
        from framework import LineCheck
        return leafgen.explain(
            LineCheck.proofs(self, ctx), "EventLink", "C08_post_cs_is_the_code / C08_accepted_wake_is_the_code (MT/EventLink.v)",
            "iv_event_post of the current src/iv_event.c (queue test, post flag, choice between the owner's task, the raw-event write "
            "and the epoll kick), as translated by gen/c2gallina.py into Gen/LeafCoreEvent.v, is not what post_cs / step of "
            "MT/EventMT.v do any more")
    trusted = [
        "log -> label abstraction (ocaml/eventmt_drv.ml.in, unproved): one label list per owner loop k from the segments "
        "`a ep<k>.<e>`, `L/U e<k>`, `Kk <epfd of k>`, `Fw` inside a post (raw transport), `pe`, and of thread k `Wb`, `R` (kick "
        "descriptor reported or not), `Fr` directly followed by `L e<k>` (read of the kick descriptor), `Ce<j>`, `A er<j>=0`, `a eu<j>`, "
        "`E`; QUIESCENT / D go to every loop.  Dropped as irrelevant to the protocol: wait entries (W), timer/close kernel notes (K), "
        "other mutexes (x<n>: active-descriptor refcount, iv_thread) -- they protect no iv_event list state --, thread create/exit, "
        "callbacks of timers/tasks/raw events/helper bodies (the owner may call the API from any of them: the model allows API calls "
        "whenever the owner is outside the locked/woken phases), reads/writes of other descriptors, `pe` of calls that are not event posts",
        "iv_thread helpers: their internal `dead` event has no `a ep`/`Ce` in the log; the parser names it event 8+<thread>, starts its "
        "post at the helper's first `L e<k>` (later than the real call: weakens nothing, a handler after the label is after the call), "
        "ends it at `Tx`, and takes `Tj <thread>` in the owner as its handler start immediately followed by its unregistration",
        "virtual kernel vk.c: one-shot epoll entries are disabled when reported, a disarmed or armed-but-truncated kick stays as it is; "
        "eventfd/pipe counters; baton scheduler mt.c: one thread runs at a time, switches only at the yield points (before lock, after "
        "unlock, before kick / descriptor read / write, blocked wait) -- sequentially consistent interleavings at synchronisation "
        "granularity, data races inside critical sections are not explored (ASan/UBSan only)",
        "`Ce<j>` carries the logging thread, not the owner recorded in the event: a handler logged by a non-loop thread is sent to every "
        "loop (rejected there); one logged by another LOOP thread would be attributed to that loop's event j",
    ]
    assumptions = [
        "API contract (excluded by the generator and by `step`): no iv_event_unregister(e) while another thread is inside "
        "iv_event_post(e), no post to an unregistered event, register/unregister only by the owner thread, handlers return; "
        "scripts unregister only owner-private events (posted by the owner thread alone), never events other threads post to",
        "kernel contract: a wait does not block while the one-shot kick is armed / the raw descriptor counter is non-zero, and "
        "reports the kick descriptor only then; fewer than 1024 unread raw pipe posts",
        "the forced raw transport (event_rx_on failing under epoll) is not reachable in the harness; raw transport = backends pp/po, "
        "with eventfd and with the pipe fallback",
        "partial: only baton-scheduled (sequentially consistent, switch at synchronisation points) runs; the free-running stress of "
        "DESIGN.md C08 is not part of this check",
    ]
    rule = ("cases = seeded random scenarios: 1-2 owner loops, 1-3 poster threads (2-7 posts/yields each), iv_thread helpers created "
            "from handlers that post, 2-4 shared + 0-2 owner-private events per loop, handler scripts that post to the own loop / the "
            "other loop, unregister and re-register private events (also the running one), create helpers, quit; owner set-up posts "
            "(events_local path), timers, tasks and a user raw event (batch truncation with max=1); backends et/ep (epoll one-shot "
            "kick) and pp/po (raw descriptor, eventfd or pipe); schedules Z: uniform, bursty, round-robin, owner-starved, "
            "poster-pairs strings.  non-trivial = a post from another thread that had to wake the owner AND at least one of: another "
            "thread ran between the poster's unlock and its kick; another thread ran between the owner's wake-up and its steal; a post "
            "or unregistration happened while a stolen batch was being run; distinct = distinct scenario text")
    corr_name = ("acceptance of every baton-scheduled log of the real iv_event.c / iv_fd_epoll.c / iv_event_raw by the extracted "
                 "transition system MT/EventMT.v (per owner loop) + extracted monitor")

    # ---- generators -------------------------------------------------------
    def schedule(self, rng, threads, posters, n):
        kind = rng.choice(["uniform", "bursty", "rr", "starved", "pairs", "uniform"])
        out = []
        if kind == "uniform":
            out = [rng.choice(threads) for _ in range(n)]
        elif kind == "bursty":
            while len(out) < n:
                out += [rng.choice(threads)] * rng.randint(1, 5)
        elif kind == "rr":
            i = 0
            while len(out) < n:
                out.append(threads[i % len(threads)])
                i += rng.choice([1, 1, 1, 2])
        elif kind == "starved":
            # the owner(s) hardly run at first: posters pile up between unlock and kick
            for _ in range(2 * n // 3):
                out.append(rng.choice(posters) if rng.random() < 0.9 else rng.choice(threads))
            out += [rng.choice(threads) for _ in range(n - len(out))]
        else:
            a = rng.choice(posters)
            b = rng.choice(threads)
            while len(out) < n:
                out += [a, b] if rng.random() < 0.8 else [rng.choice(threads)]
        return "".join(THREAD_CHARS[t] for t in out[:n])

    def scenario(self, rng):
        be = rng.choice(["et", "et", "ep", "pp", "po"])
        faults = []
        if be in ("pp", "po") and rng.random() < 0.35:
            faults = ["noeventfd", "noeventfd2"]          # raw events over a pipe
            if rng.random() < 0.4:
                # eventfd creation starts failing mid-run: eventfd-backed and pipe-backed kick / raw descriptors side by side (D9)
                faults.append("efdok=%d" % rng.choice([1, 1, 2, 3]))
        elif be == "et" and rng.random() < 0.2:
            faults = ["nopwait2"]
        loops = [0, 1] if rng.random() < 0.25 else [0]
        nposters = rng.choice([1, 2, 2, 3])
        posters = list(range(len(loops), len(loops) + nposters))
        use_tc = rng.random() < 0.3
        use_q = (not use_tc) and len(loops) == 1 and rng.random() < 0.15
        use_raw = rng.random() < 0.2                      # a user raw event on loop 0: a second ready descriptor
        nhelp = 3 if use_tc else 0
        tc_left = [3 if use_tc else 0]    # helper creations per scenario (each gets the next thread index)

        def take_tc():
            if tc_left[0] and rng.random() < 0.5:
                tc_left[0] -= 1
                return True
            return False
        threads = loops + posters + [len(loops) + nposters + i for i in range(nhelp)]
        shared = {k: list(range(rng.choice([1, 2, 2, 3]))) for k in loops}
        private = {k: [len(shared[k]) + i for i in range(rng.choice([0, 1, 1, 2]))] for k in loops}
        secs = ["B" + be]
        if faults:
            secs.append("X" + ",".join(faults))
        secs.append("M%d" % 90)
        secs.append("Z" + self.schedule(rng, threads, posters, rng.choice([20, 40, 60, 100])))

        def self_post(k):
            return "ep%d.%d" % (k, rng.choice(shared[k] + private[k]))

        def other_post(k):
            o = [x for x in loops if x != k]
            if not o:
                return self_post(k)
            return "ep%d.%d" % (o[0], rng.choice(shared[o[0]]))

        def any_shared_post():
            k = rng.choice(loops)
            return "ep%d.%d" % (k, rng.choice(shared[k]))

        for k in loops:
            body = ["er%d" % e for e in shared[k]]
            body += ["er%d" % e for e in private[k] if rng.random() < 0.7]
            rng.shuffle(body)
            if k == 0 and use_raw:
                body.append("rr0")
            for _ in range(rng.choice([0, 0, 1, 2])):
                body.append(self_post(k))                 # events_local path, before iv_main
            for j in range(rng.choice([0, 0, 1, 2])):
                body.append("tr%d+%d" % (j, rng.choice([1000, 5000, 1000000])))
                acts = [rng.choice([self_post(k), other_post(k), "y"]) for _ in range(rng.randint(1, 2))]
                if take_tc():
                    acts.append("tc%d" % rng.randint(0, 1))
                secs.append("H%dt%d:%s" % (k, j, " ".join(acts)))
            if rng.random() < 0.25:
                body.append("kr0")
                acts = [self_post(k) for _ in range(rng.randint(1, 2))]
                if take_tc():
                    acts.append("tc%d" % rng.randint(0, 1))
                secs.append("H%dk0:%s" % (k, " ".join(acts)))
            secs.append("L%d:%s" % (k, " ".join(body)))
            for e in shared[k] + private[k]:
                if rng.random() < 0.25:
                    continue
                lists = []
                nl = rng.randint(1, 4)
                for li in range(nl):
                    acts = []
                    for _ in range(rng.choice([0, 1, 1, 2, 3])):
                        r = rng.random()
                        if r < 0.35 and li < nl - 1:
                            acts.append(self_post(k))
                        elif r < 0.5 and li < nl - 1:
                            acts.append(other_post(k))
                        elif r < 0.7 and private[k]:
                            acts.append("eu%d" % rng.choice(private[k]))
                        elif r < 0.85 and private[k]:
                            acts.append("er%d" % rng.choice(private[k]))
                        elif r < 0.9 and li < nl - 1 and take_tc():
                            acts.append("tc%d" % rng.randint(0, 1))
                        elif r < 0.93 and use_q:
                            acts.append("q")
                        elif r < 0.97 and k == 0 and use_raw and li < nl - 1:
                            # an event handler unregisters the user raw event (a descriptor that may have been reported
                            # in the same kernel batch as the kick) and registers it again
                            acts.append(rng.choice(["ru0", "ru0 rr0", "ru0"]))
                        else:
                            acts.append("y")
                    lists.append(" ".join(acts) if acts else "-")
                secs.append("H%de%d:%s" % (k, e, "/".join(lists)))
            if use_tc:
                for n in range(2):
                    acts = [rng.choice([any_shared_post(), any_shared_post(), "y"]) for _ in range(rng.randint(1, 4))]
                    secs.append("H%dh%d:%s" % (k, n, " ".join(acts)))
            if k == 0 and use_raw:
                secs.append("H0r0:%s" % rng.choice(["-", self_post(0), "y"]))
        for p in posters:
            acts = []
            for _ in range(rng.randint(2, 7)):
                r = rng.random()
                if r < 0.75:
                    acts.append(any_shared_post())
                elif r < 0.85 and use_raw:
                    acts.append("rp0.0")
                else:
                    acts.append("y")
            secs.append("P%d:%s" % (p, " ".join(acts)))
        return ";".join(secs)

    FIXED = [
        # the example of docs/MT_GUIDE.md and small hand-written shapes (switch between unlock and kick, owner self-posts,
        # unregistration of a queued private event, helper threads, quit)
        "Bet;M20;Z012012;L0:er0 er1;P1:ep0.0 ep0.1 ep0.0;P2:ep0.1 y ep0.0;H0e0:-/-/eu0;H0e1:-/eu1",
        "Bpp;M20;Z012012;L0:er0 er1 ep0.1;P1:ep0.0 ep0.1 ep0.0;P2:ep0.1 y ep0.0;H0e0:-/ep0.1/eu0;H0e1:-/eu1",
        "Bpo;Xnoeventfd,noeventfd2;M30;Z0120120000111;L0:er0 rr0 er1;L1:er0;P2:ep0.1 y ep0.0 rp0.0 ep1.0;H0e0:ep1.0/-;H0e1:-;H1e0:ep0.1/-",
        "Bet;M20;Z00001122;L0:er0 tr0+1000;H0t0:tc0;H0h0:ep0.0 y ep0.0;H0e0:-",
        "Bep;M30;Z1101001;L0:er0 er1 er2 ep0.2 ep0.1;P1:ep0.0 ep0.0;H0e2:eu1 er1 ep0.1/-;H0e1:-;H0e0:ep0.2/-",
        "Bet;M30;Z0101010101;L0:er0 er1;P1:ep0.0 ep0.1 y ep0.0;H0e0:q;H0e1:-",
        "Bet;M30;Z1112220;L0:er0 rr0;P1:rp0.0 ep0.0;P2:ep0.0 rp0.0;H0e0:-;H0r0:ep0.0",
        # shrunk killers of the hand-made mutants: events_local path; handler unregisters the rest of its batch (empty_now
        # re-check); unregistration of a queued event; kick while the owner runs a batch; two loops kicking each other
        "Bpp;M20;L0:er1 ep0.1",
        "Bep;M30;L0:er2 ep0.2",
        "Bet;M30;Z1111;L0:er0 er1 ep0.0 ep0.1;H0e0:eu1;H0e1:-",
        "Bet;M30;Z1111000;L0:er0 er1 er2;P1:ep0.0 ep0.1 ep0.2;H0e0:eu1 eu2;H0e1:-;H0e2:-",
        "Bpo;M30;Z11110100;L0:er0 er1;P1:ep0.0 ep0.1 ep0.0 ep0.1;H0e0:y y;H0e1:y",
        "Bet;M40;Z0101201201;L0:er0;L1:er0;P2:ep0.0 ep1.0;H0e0:ep1.0/-;H1e0:ep0.0/-",
    ]

    def cases(self, ctx):
        rng = vlib.rng_for(ctx.seed, "C08")
        cases = []
        corpus = os.path.join(vlib.VERIF, "corpus", "C08.txt")
        if os.path.exists(corpus):
            cases += [l.rstrip("\n") for l in open(corpus) if l.strip()]
        cases += self.FIXED
        n = 1800 if ctx.tier == "quick" else 150000
        for _ in range(n):
            cases.append(self.scenario(rng))
        return cases

    # ---- measurements -----------------------------------------------------
    @staticmethod
    def features(case, log):
        """interleaving features visible in the log (see `rule`)"""
        f = {"wake": False, "unlock_kick_switch": False, "wake_steal_switch": False, "during_batch": False,
             "coalesced": False, "local_task": False, "unreg_queued": False, "helper_post": False, "end": ""}
        if not log:
            return f
        owners = {0} | {int(m.group(1)) for m in re.finditer(r"(?:^|;)\s*L(\d+):", case)}
        segs = []
        for s in log.split(" | "):
            m = re.match(r"^(\d+):(.*)$", s.strip())
            if m:
                segs.append((int(m.group(1)), m.group(2).strip()))
        f["end"] = segs[-1][1].split()[0] if segs else ""
        after_unlock = {}      # poster thread -> saw another thread since its `U e`
        woken = {}             # owner -> saw another thread since its wake-up
        in_batch = {}          # owner -> a handler of a stolen batch is running
        inpost = {}
        for t, x in segs:
            for u in list(after_unlock):
                if u != t:
                    after_unlock[u] = True
            for u in list(woken):
                if u != t:
                    woken[u] = True
            if x.startswith("a ep"):
                inpost[t] = int(re.match(r"a ep(\d+)", x).group(1))
                if inpost[t] == t and t in owners and in_batch.get(t):
                    f["during_batch"] = True
            elif x == "pe":
                if t in inpost and t in after_unlock and inpost[t] != t:
                    f["coalesced"] = True
                if t in inpost and inpost[t] == t and t in owners:
                    f["local_task"] = True
                inpost.pop(t, None)
                after_unlock.pop(t, None)
            elif x.startswith("U e"):
                if t in inpost and inpost[t] != t:
                    after_unlock[t] = False
            elif x.startswith("Kk ") or (x.startswith("Fw ") and t in inpost):
                if t in after_unlock:
                    f["wake"] = True
                    if after_unlock.pop(t):
                        f["unlock_kick_switch"] = True
            elif x.startswith("L e"):
                k = int(x[3:])
                if k == t and t in woken:
                    if woken.pop(t):
                        f["wake_steal_switch"] = True
                elif k != t and in_batch.get(k):
                    f["during_batch"] = True
                if t not in owners and t not in inpost:
                    f["helper_post"] = True
            elif x.startswith("R n=") and not x.startswith("R n=0") and t in owners:
                woken[t] = False
            elif x.startswith("Ce") and t in owners:
                in_batch[t] = True
            elif x.startswith("W") and x[1:2].isdigit() and t in owners:
                in_batch[t] = False
                woken.pop(t, None)
            elif x.startswith("a eu") and t in owners and in_batch.get(t):
                f["unreg_queued"] = True
        return f

    def nontrivial(self, case, log):
        f = self.features(case, log)
        return bool(f["wake"] and (f["unlock_kick_switch"] or f["wake_steal_switch"] or f["during_batch"]))

    def correspond(self, ctx, cases):
        st = MTCheck.correspond(self, ctx, cases)
        # a rejected log on which the extracted monitor fails too is a failing input of the property
        # (lost post / over-delivery / wrong thread), not only a broken correspondence
        both = [(idx, v) for idx, v in st["div"] if "; also C08 monitor" in v]
        if both:
            seen = {idx for idx, _ in st["monfail"]}
            st["monfail"] += [(idx, v) for idx, v in both if idx not in seen]
            st["div"] = [(idx, v) for idx, v in st["div"] if "; also C08 monitor" not in v]
        agg = getattr(self, "agg", {})
        for idx, c in enumerate(cases):
            io = st["ires"][idx][0]
            f = self.features(c, io)
            for k, v in f.items():
                if k == "end":
                    agg["end_" + v] = agg.get("end_" + v, 0) + 1
                elif v:
                    agg[k] = agg.get(k, 0) + 1
        self.agg = agg
        return st

    def distribution(self, cases):
        d = {"cases": len(cases)}
        for be in ("et", "ep", "pp", "po"):
            d["backend_" + be] = sum(1 for c in cases if c.startswith("B" + be))
        d["raw_over_pipe"] = sum(1 for c in cases if "noeventfd" in c)
        d["two_loops"] = sum(1 for c in cases if ";L1:" in c)
        d["with_helpers"] = sum(1 for c in cases if re.search(r"\btc\d", c))
        d["with_quit"] = sum(1 for c in cases if re.search(r"[: /]q\b", c))
        d["handler_unregister"] = sum(1 for c in cases if re.search(r";H\de\d:[^;]*\beu\d", c))
        d["posters_3"] = sum(1 for c in cases if len(re.findall(r";P\d:", c)) >= 3)
        d["log_features"] = dict(getattr(self, "agg", {}))
        return d

    # ---- shrinking --------------------------------------------------------
    def _fails(self, ctx, case):
        st = MTCheck.correspond(self, ctx, [case])
        return bool(st["crashes"] or st["monfail"] or st["div"])

    def shrink(self, ctx, case):
        """drop actions, handler lists, whole sections and schedule characters while the failure persists"""
        tries = [0]

        def ok(c):
            if tries[0] >= 150:
                return False
            tries[0] += 1
            return self._fails(ctx, c)

        secs = sections(case)
        # whole sections (not B, not L0)
        i = 0
        while i < len(secs):
            if secs[i][0] in "PHXZ" or (secs[i][0] == "L" and not secs[i].startswith("L0")):
                cand = secs[:i] + secs[i + 1:]
                if ok(";".join(cand)):
                    secs = cand
                    continue
            i += 1
        # single actions
        for i in range(len(secs)):
            if secs[i][0] not in "LPH" or ":" not in secs[i]:
                continue
            head, body = secs[i].split(":", 1)
            lists = [l.split() for l in body.split("/")]
            li = 0
            while li < len(lists):
                ai = 0
                while ai < len(lists[li]):
                    cand = [list(l) for l in lists]
                    del cand[li][ai]
                    txt = head + ":" + "/".join(" ".join(l) if l else "-" for l in cand)
                    if ok(";".join(secs[:i] + [txt] + secs[i + 1:])):
                        lists = cand
                        secs[i] = txt
                    else:
                        ai += 1
                li += 1
        # schedule: truncate, then drop characters
        for i in range(len(secs)):
            if secs[i][0] != "Z":
                continue
            z = secs[i][1:]
            while len(z) > 1 and ok(";".join(secs[:i] + ["Z" + z[:len(z) // 2]] + secs[i + 1:])):
                z = z[:len(z) // 2]
            k = 0
            while k < len(z):
                if ok(";".join(secs[:i] + ["Z" + z[:k] + z[k + 1:]] + secs[i + 1:])):
                    z = z[:k] + z[k + 1:]
                else:
                    k += 1
            secs[i] = "Z" + z
        return ";".join(secs)

    def widen(self, ctx, case):
        """the same program under other schedules"""
        rng = vlib.rng_for(ctx.seed, "C08w" + case)
        secs = [s for s in sections(case) if s[0] != "Z"]
        ths = sorted({0} | {int(m.group(1)) for m in re.finditer(r"(?:^|;)\s*[LP](\d+):", case)})
        out = []
        for _ in range(30):
            z = "".join(THREAD_CHARS[rng.choice(ths + [len(ths)])] for _ in range(rng.choice([10, 30, 60])))
            out.append(";".join(secs[:1] + ["Z" + z] + secs[1:]))
        return out
