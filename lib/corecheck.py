"""Checks built on the core-loop model (Core/*.v) and the ivsim harness (real
library on the virtual kernel): C01 C02 C03 C04 C06 C07 C09 C15 C18."""
import os
import re

import vlib
import core_gen
import runner
import c18small
from framework import LineCheck

CORE_VO = ["theories/Core/Kernel.vo", "theories/Core/CoreTypes.vo", "theories/Core/CoreFd.vo",
           "theories/Core/CoreModel.vo", "theories/Core/Monitors.vo", "theories/Core/CoreSpec.vo"]

CORE_TRUSTED = [
    "modelled, not verified: the C text of iv_main_posix.c, iv_fd.c, iv_fd_epoll.c, iv_fd_poll.c, iv_task.c, iv_timer.c, "
    "iv_event.c (owner-thread paths), iv_event_raw_posix.c is transcribed by hand into Core/CoreFd.v + Core/CoreModel.v "
    "(intrusive lists as lists of object ids, pointers as ids, struct fields as record fields); the tie is trace equality of "
    "model and implementation on generated scenarios, every run",
    "the virtual kernel: harness/vk.c (C) and Core/Kernel.v (Coq twin) define epoll (level-triggered, EPOLLONESHOT, HUP/ERR always "
    "reported, maxevents truncation in descriptor order rotated by the scenario), poll/ppoll, timerfd, eventfd, pipes, a virtual "
    "monotonic clock that advances only inside waits and by explicit scenario actions; linker interposition (-Wl,--wrap) of the "
    "libc entry points ivykis uses; the real Linux kernel is not in the loop",
    "one scenario per process (fork per case), ASan/UBSan on library and harness",
    "harness rules, judged outside Coq and reported as failing inputs (trace segments `X ...`, which no model trace contains): "
    "descriptor flags after a raw-event registration; close of a descriptor that is not open (vk.c); at the return of iv_main "
    "(ivsim.c check_end_state, reads the library's private structs): a registered timer is in the heap, a registered task is on the "
    "loop's task list, a registered descriptor is on no active list; a sanitizer report / crash of the scenario process (code 1801) "
    "counts for every core check",
    "monitors on the implementation trace: Core/Monitors.v (tracker, all codes proved absent: core_mon_all), Core/GuardMon.v "
    "(core_gmon_all), Core/FairMon.v (clause 605, core_fair)",
]


def heap_traffic_cases(backends, rng, count):
    """heap traffic with the full population of 16 timers: register many with scattered expiries, cancel interior /
    last / first ones, register more, then let the loop run: the wait deadline must be the earliest remaining expiry
    at every wait (a damaged heap makes the loop oversleep a due timer: clauses 403/404) and the callbacks come
    in expiry order; cancellations also from handlers"""
    cases = []
    for _ in range(count):
        be = rng.choice(backends)
        k = rng.randint(7, 16)
        ids = list(range(k))
        exp = {j: rng.choice([1, 2, 3, 4, 5, 7, 10, 11, 12, 13, 20, 50]) * 100000000 + rng.choice([0, 0, 1000000, 999]) for j in ids}
        setup = ["tr%d+%d" % (j, exp[j]) for j in ids]
        live = list(ids)
        for _ in range(rng.randint(2, min(6, k - 2))):
            v = rng.choice(live)
            live.remove(v)
            setup.append("tu%d" % v)
            if rng.random() < 0.5:
                exp[v] = rng.choice([1, 2, 6, 9, 13, 14, 30]) * 100000000
                setup.append("tr%d+%d" % (v, exp[v]))
                live.append(v)
        secs = ["B" + be, "M%d" % rng.choice([24, 40]), "S " + " ".join(setup)]
        for j in rng.sample(live, min(len(live), rng.randint(0, 3))):
            others = [x for x in live if x != j]
            if others:
                secs.append("Ht%d:%s" % (j, rng.choice(["tu%d" % rng.choice(others), "tu%d tu%d" % (rng.choice(others), rng.choice(others)),
                                                       "tu%d tr%d+%d" % (rng.choice(others), rng.choice(others), rng.choice([1, 3, 8]) * 100000000)])))
        cases.append(";".join(secs))
    return cases


def multi_loop_stage(self, ctx, st, cases):
    """several loops in different threads on the real kernel (harness/multi_loop_smoke.c), per epoll / poll method: every
    handler call is checked against the kernel (poll(2) on the descriptor), the owning thread and the cookie.  A search
    stage without a model trace; a violation is appended as a pseudo-case `MLOOP <excluded methods>`."""
    import subprocess
    d = os.path.join(ctx.work, "mloop")
    ok, out = vlib.cc_build(d, "multi_loop_smoke", ["multi_loop_smoke.c"], vlib.LIB_SRCS)
    if not ok:
        st["div"].append((0, "multi_loop_smoke does not build: " + out[-400:]))
        return
    runs = [("", 4, 24), ("epoll-timerfd", 4, 24), ("epoll-timerfd epoll", 3, 12), ("epoll-timerfd epoll ppoll", 3, 12)]
    if ctx.tier != "quick":
        runs = runs * 4
    self.mloop_runs = getattr(self, "mloop_runs", 0)
    for excl, nthr, np in runs:
        env = dict(os.environ, IV_EXCLUDE_POLL_METHOD=excl, ASAN_OPTIONS="detect_leaks=1:abort_on_error=0:exitcode=97",
                   UBSAN_OPTIONS="halt_on_error=1:exitcode=98")
        try:
            p = subprocess.run([os.path.join(d, "multi_loop_smoke"), str(nthr), str(np), "500" if ctx.tier == "quick" else "1500"],
                               stdout=subprocess.PIPE, stderr=subprocess.PIPE, text=True, timeout=120, env=env)
            why = None if p.returncode == 0 else ("rc=%d %s %s" % (p.returncode, p.stdout[-400:], p.stderr[-1500:]))
        except subprocess.TimeoutExpired:
            why = "the loops did not finish (hang)"
        self.mloop_runs += 1
        if why:
            cases.append("MLOOP " + excl)
            st["mres"].append(("", None))
            st["ires"].append((why[-3000:], None))
            if st["mon"] is not None:
                st["mon"].append("OK")
            st["crashes"].append((len(cases) - 1, "loops in several threads on the real kernel (multi_loop_smoke, excluded methods `%s`): %s"
                                  % (excl, why)))
            return
    st["n"] += len(runs)


CORE_LEAF_FILES = ["LeafCoreFd.v", "LeafCoreTask.v", "LeafCoreMain.v", "LeafCoreEpoll.v", "LeafCorePoll.v", "LeafCoreEvent.v",
                   "LeafCoreLists.v", "LeafCoreRaw.v"]


class CoreCheck(LineCheck):
    coq_extra = ["theories/Core/CoreRel.vo", "theories/Core/CoreInv.vo", "theories/Core/CoreCodes.vo", "theories/Core/CoreCodes2.vo",
                 "theories/Core/CorePhase2Fd.vo", "theories/Core/CorePhase2Time.vo", "theories/Core/CorePhase2TimeC09.vo", "theories/Core/CorePhase2Guard.vo", "theories/Core/CorePhase2GuardAll.vo", "theories/Core/CorePhase2AcctIdleTop.vo", "theories/Core/CorePhase2Ei.vo", "theories/Core/CorePhase2AcctC07.vo", "theories/Core/CoreAll.vo", "theories/Core/FairMon.vo", "theories/Core/FairMonProof.vo", "theories/Core/CoreExamples.vo"]
    codes = []             # list of (lo, hi) failure-code ranges of the Coq monitor that belong to this property
    extra_codes = []
    profiles = ["mixed"]
    n_quick = 600
    n_thorough = 12000
    backends = core_gen.BACKENDS
    with_faults = 0.25
    standing = 0.1

    leaf = False           # does this property's proof depend on the translated leaf functions?

    core_leaf = False      # ... and on the translated decision points of the core loop (Gen/LeafCore*.v, Core/CoreLeafLink.v)?

    @property
    def coq_targets(self):
        return CORE_VO + (["theories/Gen/Leaf.vo", "theories/Base/LeafLink.vo"] if self.leaf else []) + \
            ((["theories/Gen/%so" % f for f in CORE_LEAF_FILES] + ["theories/Core/CoreLeafLink.vo"]) if self.core_leaf else []) + \
            self.coq_extra

    def pre_proof(self, ctx):
        """way (a) of the tie: regenerate Gen/Leaf.v (leaf functions) and Gen/LeafCore*.v (the tests and stores of
        iv_fd_timeout_check, the dispatch loop, iv_fd_make_ready, iv_task_register, iv_run_tasks, iv_main, the epoll and
        poll batch decoding, the epoll flush and the poll slot bookkeeping) from the current C source"""
        if not self.leaf and not self.core_leaf:
            return None
        import importlib.util
        spec = importlib.util.spec_from_file_location("c2gallina", os.path.join(vlib.VERIF, "gen", "c2gallina.py"))
        mod = importlib.util.module_from_spec(spec)
        spec.loader.exec_module(mod)
        with vlib.Lock(os.path.join(vlib.COQ, ".lock")):
            err = mod.main() if self.leaf else None
            if not err and self.core_leaf:
                err = mod.main(None, list(CORE_LEAF_FILES))
                errs = [getattr(mod, "LAST_ERRORS", {}).get(f) for f in CORE_LEAF_FILES]
                errs = [e for e in errs if e]
                if not err and errs:
                    err = "; ".join(errs)
        return ("leaf translator failed (tie broken): " + err) if err else None

    @property
    def trusted(self):
        return CORE_TRUSTED + list(getattr(self, "trusted_extra", []))

    corr_name = "correspondence ivsim(real library on the virtual kernel) = extracted CoreModel (full event trace: callbacks with handler id and cookie, every executed API action, every kernel wait with requested timeout / interest set / ground-truth conditions / reported descriptors / clock, kernel timer settings, descriptor closes, end state)"

    def build(self, ctx):
        d = os.path.join(ctx.work, "b")
        ok, out = vlib.coq_extract("Extract/ExtractCore.v", d)
        if not ok:
            return False, out
        with open(os.path.join(d, "core_drv.ml"), "w") as f:
            f.write("open Core_model\n")
            f.write(open(os.path.join(vlib.VERIF, "ocaml", "zutil.ml.in")).read())
            f.write(open(os.path.join(vlib.VERIF, "ocaml", "core_drv.ml.in")).read())
        ok, out2 = vlib.ocaml_build(d, ["core_model.ml", "core_drv.ml"], "core_model_run")
        if not ok:
            return False, out + out2
        ok, out3 = vlib.cc_build(d, "ivsim", ["ivsim.c", "vk.c"], vlib.LIB_SRCS, wraps=vlib.VK_WRAPS)
        self.d = d
        return ok, out + out2 + out3

    def model_cmd(self, ctx):
        return [os.path.join(self.d, "core_model_run"), "run"]

    def impl_cmd(self, ctx):
        return [os.path.join(self.d, "ivsim")]

    def monitor_cmd(self, ctx):
        return [os.path.join(self.d, "core_model_run"), "mon"]

    # ---- cases ----
    def gen_cases(self, ctx, rng, n):
        cases = []
        for _ in range(n):
            prof = rng.choice(self.profiles)
            g = core_gen.Gen(rng, prof)
            fl = None
            if rng.random() < self.with_faults:
                fl = rng.choice(core_gen.FAULT_SETS)
            be = rng.choice(self.backends)
            if fl and "emfile" in fl and be in ("et", "ep"):
                be = rng.choice(["pp", "po"])
            cases.append(g.scenario(backend=be, faults=fl))
        for _ in range(int(n * self.standing)):
            cases.append(core_gen.standing_deadline(rng, rng.choice(self.backends)))
        return cases

    def cases(self, ctx):
        rng = vlib.rng_for(ctx.seed, self.pid)
        cases = []
        for name in ("core.txt", self.pid + ".txt"):
            p = os.path.join(vlib.VERIF, "corpus", name)
            if os.path.exists(p):
                cases += [l.rstrip("\n") for l in open(p) if l.strip() and not l.startswith("#")]
        self.n_corpus = len(cases)
        cases += self.gen_cases(ctx, rng, self.n_quick if ctx.tier == "quick" else self.n_thorough)
        return cases

    # ---- verdict plumbing ----
    def my_code(self, c):
        # 1801 = the implementation left the model's memory discipline (sanitizer report / crash of the child running
        # the scenario): a concrete failing input for whichever property's workload reached it (the model never does:
        # CoreCodes2.core_code_1801)
        return any(lo <= c < hi for lo, hi in self.codes) or c in self.extra_codes or c == 1801

    multi_loop = False     # run harness/multi_loop_smoke.c (loops in several threads, real kernel) as a stage of this check?

    def correspond(self, ctx, cases):
        if len(cases) == 1 and cases[0].startswith("MLOOP "):
            st = CoreCheck.correspond(self, ctx, [])
            multi_loop_stage(self, ctx, st, [])
            return st
        st = self._correspond_core(ctx, cases)
        if self.multi_loop and len(cases) > 10 and type(self).correspond is CoreCheck.correspond:
            multi_loop_stage(self, ctx, st, cases)
        return st

    def _correspond_core(self, ctx, cases):
        st = LineCheck.correspond(self, ctx, cases)
        keep = []
        other = 0
        for idx, v in st["monfail"]:
            m = re.match(r"FAIL ([0-9,]+)", v)
            cs = [int(x) for x in m.group(1).split(",")] if m else [0]
            mine = [c for c in cs if c == 0 or self.my_code(c)]
            if mine:
                io = st["ires"][idx][0] or ""
                xs = [seg for seg in io.split(" | ") if seg.startswith("X ")]
                if xs:
                    v = "harness rule violated by the implementation: " + xs[0][2:] + " [" + v + "]"
                keep.append((idx, "%s (monitor clauses %s, see Core/Monitors.v)" % (v, mine)))
            else:
                other += 1
        st["monfail"] = keep
        st["monfail_other_properties"] = other
        # a CRASH marker printed by ivsim (child died) counts as an implementation crash for C18 / any property
        return st

    def signature(self, case, why):
        m = re.search(r"monitor clauses \[([0-9, ]+)\]", why)
        return "core:" + (m.group(1).replace(" ", "").replace(",", "_") if m else "crash")

    def describe(self, case):
        if case.startswith("MLOOP "):
            return {"multi_loop_smoke_excluded_methods": case[6:]}
        return {"scenario": case}

    def distribution(self, cases):
        d = {"corpus_cases": getattr(self, "n_corpus", 0)}
        if self.multi_loop:
            d["multi_loop_smoke_runs_real_kernel"] = getattr(self, "mloop_runs", 0)
        for b in core_gen.BACKENDS:
            d["backend_" + b] = sum(1 for c in cases if c.startswith("B" + b))
        d["with_faults"] = sum(1 for c in cases if ";X" in c)
        toks = [t for c in cases for t in re.split(r"[ ;/:]", c) if t]
        for pre, name in (("fr", "fd_register"), ("fu", "fd_unregister"), ("fh", "set_handler"), ("tr", "timer_register"),
                          ("kr", "task_register"), ("ep", "event_post"), ("rp", "raw_post"), ("fx", "struct_reuse")):
            d[name] = sum(1 for t in toks if t.startswith(pre))
        return d

    def _fails(self, ctx, case):
        st = self.correspond(ctx, [case])
        return bool(st["crashes"] or st["monfail"])

    def shrink(self, ctx, case):
        """drop whole sections, then single actions, while the failure persists.  Shrinking is a convenience for the
        reader of the replay file: all shrinking of one check run shares a wall-clock budget (the extracted model needs
        seconds per try on bursts of thousands of posts; seed C09_9 kept a check busy for half an hour)"""
        import time
        if case.startswith("MLOOP "):
            return case
        if not hasattr(ctx, "shrink_deadline"):
            ctx.shrink_deadline = time.time() + float(os.environ.get("VERIF_SHRINK_SECONDS", "150"))
        secs = case.split(";")
        tries = 0
        i = 1
        while i < len(secs) and tries < 60 and time.time() < ctx.shrink_deadline:
            if secs[i][:1] in ("H", "W", "O", "X"):
                cand = secs[:i] + secs[i + 1:]
                tries += 1
                if self._fails(ctx, ";".join(cand)):
                    secs = cand
                    continue
            i += 1
        for si in range(len(secs)):
            if secs[si][:1] not in ("S", "H", "W"):
                continue
            head, _, body = secs[si].partition(":") if secs[si][0] != "S" else ("S", "", secs[si][1:])
            lists = body.split("/")
            for li in range(len(lists)):
                acts = lists[li].split()
                j = 0
                while j < len(acts) and tries < 160 and time.time() < ctx.shrink_deadline:
                    cand_acts = acts[:j] + acts[j + 1:]
                    cl = lists[:li] + [" ".join(cand_acts) if cand_acts else "-"] + lists[li + 1:]
                    cs = secs[:si] + [(head + ":" if head != "S" else "S ") + "/".join(cl)] + secs[si + 1:]
                    tries += 1
                    if self._fails(ctx, ";".join(cs)):
                        acts = cand_acts
                        lists = cl
                        secs = cs
                    else:
                        j += 1
        return ";".join(secs)

    def widen(self, ctx, case):
        out = []
        if case.startswith("MLOOP "):
            return out
        for b in core_gen.BACKENDS:
            out.append(re.sub(r"^B..", "B" + b, case))
        return out

    def count(self, mo, pat):
        return len(re.findall(pat, mo or ""))


def _segs(mo):
    return (mo or "").split(" | ")


class C01(CoreCheck):
    pid = "C01"
    codes = [(100, 200), (1101, 1103), (1104, 1105), (1801, 1802)]
    profiles = ["fd", "mixed", "event", "task", "timer"]
    rule = ("seeded scenarios over all object kinds with several objects due in one iteration and handler scripts that unregister/free "
            "(struct reuse) self and other objects; non-trivial = some unregister or free action is executed inside a callback of an "
            "iteration with >= 2 callbacks; distinct = distinct scenario text")
    assumptions = ["objects are freed only after their unregister call returned (scenario guard)",
                   "byte-level freedom from stale accesses is observed by ASan on poisoned, individually allocated structs, not proved"]

    def sibling_stages(self):
        # C01 anchors iv_inotify.c, iv_signal.c and iv_wait.c as well: "no callback / access after unregister" for watches,
        # signal interests and wait interests is decided by the machinery of C20, C10 and C11 (handler scripts that
        # unregister self / others / the instance, freed at once, under ASan; their Coq monitors)
        import c20, c10, c08
        # ... and the cross-thread kick path of iv_event / the epoll batch (an event handler that unregisters and frees a raw
        # event whose descriptor was reported in the same batch) by the C08 machinery
        return [("C20", c20.C20), ("C10", c10.C10), ("C11", c10.C11), ("C08", c08.C08)]

    def gen_cases(self, ctx, rng, n):
        cases = CoreCheck.gen_cases(self, ctx, rng, n)
        # one descriptor ready in several bands in the same iteration; the FIRST handler that runs unregisters the
        # descriptor and frees its struct at once (fx = free + fresh poisoned allocation): the dispatcher must not look at
        # the object again before deciding about the remaining bands; also with a second descriptor that is torn down by
        # the first one's handler, and with re-registration of the fresh struct from the same handler
        for _ in range(max(40, n // 6)):
            be = rng.choice(self.backends)
            bands = rng.choice(["io", "io", "ioe", "ioh", "ie", "oe", "ih"])
            hs = {"i": 0, "o": 1, "e": 2}
            have = [b for b in "ioe" if b in bands or (b == "e" and "h" in bands) or rng.random() < 0.3]
            secs = ["B" + be, "M8"]
            setup = ["fh0%s%d" % (b, hs[b]) for b in have] + ["fr0"]
            two = rng.random() < 0.4
            if two:
                setup += ["fh1i3", "fr1", "ks1=i"]
            setup.append("ks0=" + bands)
            secs.append("S " + " ".join(setup))
            first = "e" if ("e" in have and ("e" in bands or "h" in bands)) else ("i" if ("i" in have and ("i" in bands or "h" in bands)) else "o")
            tear = rng.choice(["fu0 fx0", "fu0 fx0", "fu0 fx0 fh0i0 fr0", "fu0", "fu0 fx0 fu1 fx1" if two else "fu0 fx0"])
            for b in have:
                secs.append("Hf%d:%s" % (hs[b], tear if b == first else rng.choice(["-", "fu0 fx0", "-"])))
            if two:
                secs.append("Hf3:" + rng.choice(["fu1 fx1", "fu0 fx0 fu1 fx1", "-/fu1"]))
            cases.append(";".join(secs))
        # the same for the other kinds of batch: several timers that expire in ONE pass of iv_run_timers (equal or past
        # expiries), several tasks in one round, several events posted before one wake-up: an early handler
        # unregisters later members of the batch that have not run yet and frees their structs at once (tx / kx / ex =
        # free + fresh poisoned allocation), sometimes re-registering the fresh struct
        for _ in range(max(30, n // 8)):
            be = rng.choice(self.backends)
            kind = rng.choice(["t", "t", "t", "k", "e"])
            k = rng.randint(3, 6)
            ids = list(range(k))
            if kind == "t":
                base = rng.choice([0, 0, 1000, 1000000])
                setup = ["tr%d+%d" % (j, base + rng.choice([0, 0, 0, 1])) for j in ids]
            elif kind == "k":
                setup = ["kr%d" % j for j in ids]
            else:
                setup = ["er%d" % j for j in ids] + ["ep%d" % j for j in ids]
            rng.shuffle(setup) if kind != "e" else None
            secs = ["B" + be, "M8", "S " + " ".join(setup)]
            un = {"t": "tu", "k": "ku", "e": "eu"}[kind]
            fx = {"t": "tx", "k": "kx", "e": "ex"}[kind]
            rr = {"t": "tr%d+0", "k": "kr%d", "e": "er%d"}[kind]
            for j in rng.sample(ids, rng.randint(1, 3)):
                acts = []
                for v in rng.sample([x for x in ids if x != j], rng.randint(1, min(3, k - 1))):
                    acts += ["%s%d" % (un, v), "%s%d" % (fx, v)]
                    if rng.random() < 0.25:
                        acts.append(rr % v)
                secs.append("H%s%d:%s/-" % (kind, j, " ".join(acts)))
            cases.append(";".join(secs))
        return cases

    def nontrivial(self, case, mo):
        it = re.split(r" \| W\d+ ", mo or "")
        for part in it:
            if len(re.findall(r"\| C[ftker]", part)) >= 2 and re.search(r"\| C[ftker][^|]*\| (a [a-z0-9=@+-]+ \| )*a (fu|tu|ku|eu|ru|fx|tx|kx|ex|rx)", part):
                return True
        return False


class C02(CoreCheck):
    pid = "C02"
    multi_loop = True
    leaf = True
    core_leaf = True
    codes = [(200, 300), (1104, 1105)]
    profiles = ["fd", "fd", "mixed"]
    rule = ("handler toggling histories (NULL->h->NULL->h within and across iterations), conditions raised before/after registration, "
            "HUP/ERR-only conditions, error-only handlers; non-trivial = >= 1 descriptor callback and >= 1 set-handler action after iv_main "
            "started; distinct = distinct scenario text")
    assumptions = ["eventual delivery under unfair maxevents truncation is not claimed (kernel fairness)"]

    def nontrivial(self, case, mo):
        tail = (mo or "").split(" | M | ", 1)[-1]
        return "Cf" in tail and " a fh" in tail

    def gen_cases(self, ctx, rng, n):
        cases = CoreCheck.gen_cases(self, ctx, rng, n)
        # a failed iv_fd_register_try followed by a plain registration of the same struct (same or other
        # handler set), and handlers replaced by other non-NULL handlers
        for _ in range(n // 6):
            be = rng.choice(self.backends)
            hs = rng.choice(["fh0i1", "fh0i1 fh0o2", "fh0o2", "", "fh0e3"])
            hs2 = rng.choice(["", "", "fh0i2", "fh0o1", "fh0i-"])
            cond = rng.choice(["i", "o", "io", "h"])
            secs = ["B" + be, "M%d" % rng.choice([5, 8]),
                    "S %s kc0 ft0 ko0 %s fr0 ks0=%s%s" % (hs, hs2, cond, rng.choice(["", " tr0+2000000"])),
                    "Hf1:" + rng.choice(["ks0=", "fh0i2/ks0=", "fu0"]), "Hf2:" + rng.choice(["ks0=", "fh0o1/ks0=", "fu0"]),
                    "Hf3:ks0= fu0", "Ht0:" + rng.choice(["-", "fh0i1", "fu0"])]
            cases.append(";".join(secs))
        return cases


class C03(CoreCheck):
    pid = "C03"
    multi_loop = True
    leaf = True
    core_leaf = True
    codes = [(300, 400), (101, 102), (1101, 1103)]
    profiles = ["fd", "fd", "mixed"]
    rule = ("multi-iteration readiness patterns (ready in one iteration, not the next), struct reuse after unregister, cookie changes, "
            "handler changes; non-trivial = >= 2 descriptor callbacks; distinct = distinct scenario text")

    def nontrivial(self, case, mo):
        return self.count(mo, r"\| Cf") >= 2

    def sibling_stages(self):
        # iv_fd_epoll.c decodes a batch that may also hold the cross-thread kick of iv_event: user event handlers must not
        # run between the kernel report and the decoding of later entries (they may unregister / reuse descriptors of the
        # same batch).  The multi-threaded C08 machinery produces such batches (event handlers that unregister and free).
        import c08
        return [("C08", c08.C08)]

    def gen_cases(self, ctx, rng, n):
        cases = CoreCheck.gen_cases(self, ctx, rng, n)
        # struct reuse WITHOUT re-initialisation: a descriptor that is queued in the current batch is
        # unregistered by another handler and registered again, then becomes ready for a different band only
        for _ in range(n // 5):
            be = rng.choice(self.backends)
            b1, b2 = rng.sample(["i", "o"], 2)
            c1 = {"i": "i", "o": "o"}[b1]
            c2 = {"i": "i", "o": "o"}[b2]
            first = rng.choice([0, 1])
            other = 1 - first
            secs = ["B" + be, "M%d" % rng.choice([6, 10]),
                    "S fh0i1 fh0o2 fh1i1 fh1o2 fr0 fr1 ks0=%s ks1=%s" % (c1, c1) + rng.choice(["", " tr0+1000000"])]
            reuse = "fu%d fr%d ks%d=%s ks%d=" % (other, other, other, c2, first)
            secs.append("Hf1:" + (reuse if b1 == "i" else "-") + "/ks0= ks1=/-")
            secs.append("Hf2:" + (reuse if b1 == "o" else "-") + "/ks0= ks1=/-")
            # the same with the roles decided at run time (whichever handler runs first)
            if rng.random() < 0.5:
                secs[3] = "Hf1:fu0 fu1 fr0 fr1 ks0=%s ks1=%s/ks0= ks1=/-" % (c2, c2) if b1 == "i" else secs[3]
            secs.append("Ht0:-")
            cases.append(";".join(secs))
        # watchers whose kernel event mask is EMPTY (error band only, or every in/out handler cleared in an earlier
        # iteration) are unregistered WITHOUT closing the descriptor and the struct is registered again for it (or the
        # descriptor is reported with HUP/ERR afterwards): the kernel's interest set must have dropped the entry
        for _ in range(max(12, n // 10)):
            be = rng.choice(self.backends)
            first = rng.choice(["fh0e3", "fh0e3", "fh0i1 fh0e3", "fh0o2 fh0e3"])
            clear = {"fh0e3": "-", "fh0i1 fh0e3": "fh0i-", "fh0o2 fh0e3": "fh0o-"}[first]
            again = rng.choice(["fh0i1 fr0 ks0=i", "fh0o2 fr0 ks0=o", "fh0i1 fh0e- fr0 ks0=i", "fr0 ks0=he", "fh0e- fh0o2 fr0 ks0=o"])
            secs = ["B" + be, "M%d" % rng.choice([8, 12]),
                    "S %s fr0 fh1i1 fr1 tr0+1000000 tr1+3000000 tr2+5000000 tr3+7000000" % first,
                    "Hf1:ks1=", "Ht0:%s ks1=i" % clear, "Ht1:fu0%s" % rng.choice(["", " ks0=he", " ks1=i", " fx0 ks0=he", " fx0 ks0=he"]),
                    "Ht2:%s" % again, "Ht3:ks0= fu0" + rng.choice(["", " fr0", " fh0i1 fr0 ks0=i"]),
                    "Hf3:ks0="]
            cases.append(";".join(secs))
        return cases


class C04(CoreCheck):
    pid = "C04"
    leaf = True
    core_leaf = True
    # 605: due timers are dispatched before the next wait / before iv_main returns (theorem C04_due_timers_run)
    codes = [(400, 500), (102, 103), (1103, 1104), (605, 606)]
    profiles = ["timer", "timer", "mixed"]
    standing = 0.5
    rule = ("past/zero/equal/far expiries x descriptor wake-ups that make the same deadline recur (kernel-timer path engages after 5) x "
            "EINTR x clock advances; non-trivial = >= 1 timer callback and >= 2 waits; distinct = distinct scenario text")
    assumptions = ["the clock is monotone; oversleep bounds are checked only when the clock was not advanced without iv_invalidate_now "
                   "(documented obligation of the caller)"]

    def sibling_stages(self):
        # iv_timer.c at populations beyond the 16 timers of the core scenarios (heap + radix tree): the C05 machinery
        import c05
        return [("C05", c05.C05)]

    def gen_cases(self, ctx, rng, n):
        cases = CoreCheck.gen_cases(self, ctx, rng, n)
        return cases + heap_traffic_cases(self.backends, rng, max(60, n // 5))

    def nontrivial(self, case, mo):
        return self.count(mo, r"\| Ct") >= 1 and self.count(mo, r"\| W\d+ ") >= 2


class C06(CoreCheck):
    pid = "C06"
    core_leaf = True
    codes = [(600, 700), (103, 104), (1101, 1103)]
    profiles = ["task", "task", "mixed"]
    rule = ("tasks registering self / each other / fresh / already-run tasks from task, descriptor, timer and event handlers with ready "
            "descriptors and due timers present; non-trivial = >= 2 task callbacks; distinct = distinct scenario text")

    def nontrivial(self, case, mo):
        return self.count(mo, r"\| Ck") >= 2

    def gen_cases(self, ctx, rng, n):
        cases = CoreCheck.gen_cases(self, ctx, rng, n)
        # tasks pending at a wait while the repeated-deadline kernel timer is ARMED (the same far deadline was seen on
        # five consecutive waits): the zero timeout asked for by iv_main must still reach the kernel.  A task that
        # re-registers itself (deferred past the next poll) from the 6th..8th wake-up, with the waking descriptor
        # staying ready or going quiet at that moment
        for _ in range(max(12, n // 10)):
            be = rng.choice(self.backends)
            d = rng.choice([50000000, 1000000000, 5000000])
            quiet = rng.choice(["", "ks0= ", "ks0= "])
            at = rng.choice([5, 6, 7])
            hf = ["-"] * at + ["%skr0" % quiet, rng.choice(["-", "ks0=", "kr1"]), "ks0= fu0"]
            secs = ["B" + be, "M%d" % rng.choice([16, 24]), "S fh0i0 fr0 ks0=i tr0+%d" % d,
                    "Hf0:" + "/".join(hf), "Hk0:" + rng.choice(["kr0/kr0/-", "kr0/-", "kr1/-", "kr0 kr1/kr0/-"]),
                    "Hk1:" + rng.choice(["-", "kr0/-", "kr1/-"]), "Ht0:-"]
            cases.append(";".join(secs))
        # loops that live for more than 2^16 iterations (the round counter of iv_task.c is 32 bits wide; the stamps
        # in the task objects must be as wide): self-re-registering tasks / ping-pong pairs for 66000+ iterations
        for _ in range(2 if ctx.tier == "quick" else 4):
            be = rng.choice(self.backends)
            m = rng.choice([66000, 67000, 70000])
            body = rng.choice(["S kr0;Hk0:kr0", "S kr0;Hk0:kr1;Hk1:kr0", "S kr0 tr0+1000000;Hk0:kr0;Ht0:tr0+1000000"])
            cases.append("LONGRUN B%s;M%d;%s" % (be, m, body))
        return cases

    def correspond(self, ctx, cases):
        return _impl_and_monitors_only(self, ctx, cases, "LONGRUN ", CoreCheck.correspond, "loop living beyond 2^16 iterations")

    def shrink(self, ctx, case):
        return case if case.startswith("LONGRUN ") else CoreCheck.shrink(self, ctx, case)

    def widen(self, ctx, case):
        return [] if case.startswith("LONGRUN ") else CoreCheck.widen(self, ctx, case)

    def distribution(self, cases):
        d = CoreCheck.distribution(self, [c for c in cases if not c.startswith("LONGRUN ")])
        d["loops_beyond_65536_iterations_implementation_and_monitors_only"] = sum(1 for c in cases if c.startswith("LONGRUN "))
        return d


def _impl_and_monitors_only(self, ctx, cases, prefix, base_correspond, label):
    """pseudo-cases `<prefix> <scenario>`: run the implementation and the Coq monitors on its trace, no model trace
    (the extracted model is too slow for them); everything else goes through base_correspond"""
    import runner
    small = [i for i, c in enumerate(cases) if not c.startswith(prefix)]
    big = [i for i, c in enumerate(cases) if c.startswith(prefix)]
    s0 = base_correspond(self, ctx, [cases[i] for i in small])
    n = len(cases)
    st = {"n": n, "div": [], "crashes": [], "monfail": [], "nontrivial": s0["nontrivial"], "mres": [("", None)] * n,
          "ires": [("", None)] * n, "mon": ["OK"] * n, "monfail_other_properties": s0.get("monfail_other_properties", 0)}
    for key in ("div", "crashes", "monfail"):
        st[key] += [(small[j], why) for j, why in s0[key]]
    for j, i in enumerate(small):
        st["mres"][i] = s0["mres"][j]
        st["ires"][i] = s0["ires"][j]
        if s0["mon"] is not None:
            st["mon"][i] = s0["mon"][j]
    if big:
        scen = [cases[i][len(prefix):] for i in big]
        ires = runner.run_cases_sharded(self.impl_cmd(ctx), scen, timeout=self.timeout(ctx), env=dict(runner.ASAN_ENV))
        mon = runner.run_monitor(self.monitor_cmd(ctx), scen, [r[0] or "" for r in ires], ctx.work)
        for i, (io, ierr), v in zip(big, ires, mon):
            st["ires"][i] = (io[-4000:] if io else io, ierr)
            st["mres"][i] = ("(%s: implementation + Coq monitors only, no model trace)" % label, None)
            st["mon"][i] = v
            if ierr is not None or not io:
                st["crashes"].append((i, ierr or "no output"))
            elif " | CRASH" in io:
                st["crashes"].append((i, io.rsplit(" | ", 1)[-1][:600]))
            elif not v.startswith("OK"):
                st["monfail"].append((i, v + " (monitor clauses on the implementation trace, %s)" % label))
            else:
                st["nontrivial"] += 1
    for key in ("div", "crashes", "monfail"):
        st[key].sort(key=lambda x: x[0])
    return st


class C07(CoreCheck):
    pid = "C07"
    core_leaf = True
    # 403-405 / 602 / 604 / 901-902: "blocks in the kernel only when nothing is due" for timers, tasks and raw events
    # (theorem C07_blocks_only_when_nothing_due)
    # 603: a task runs at most once per iteration (theorem C07_task_chains_yield)
    codes = [(700, 800), (1101, 1104), (403, 406), (602, 604), (604, 605), (901, 903)]
    profiles = ["quit", "quit", "mixed", "event"]
    with_faults = 0.35
    rule = ("programs over all object kinds with iv_quit anywhere, failing iv_fd_register_try (closed descriptor) and failing "
            "iv_event_register / iv_event_raw_register (descriptor exhaustion under poll methods); non-trivial = iv_main returned (E event) "
            "after >= 1 wait, or a registration failed; distinct = distinct scenario text")

    def nontrivial(self, case, mo):
        return (" | E q=" in (mo or "") and " | W1 " in (mo or "")) or "=-1" in (mo or "")

    def sibling_stages(self):
        # "every wake-up makes progress instead of polling repeatedly": the wake-up of another thread's loop (the one-shot
        # kick of iv_fd_epoll.c / the raw-event kick) only exists in multi-threaded runs: the C08 machinery (its model
        # rejects a kick descriptor that is reported again without a new post)
        import c08
        return [("C08", c08.C08)]

    def gen_cases(self, ctx, rng, n):
        cases = CoreCheck.gen_cases(self, ctx, rng, n)
        # work that becomes due while the repeated-deadline kernel timer is ARMED (same far deadline on five consecutive
        # waits): a chain of self-posts of an iv_event (delivered through the loop's internal task), raw-event posts,
        # self-re-registering tasks, started from the 6th..8th wake-up, with the waking descriptor going quiet
        for _ in range(max(12, n // 10)):
            be = rng.choice(self.backends)
            d = rng.choice([50000000, 1000000000, 5000000])
            at = rng.choice([5, 6, 7])
            start = rng.choice(["ep0", "ep0", "rp0", "kr0", "ep0 rp0"])
            hf = ["-"] * at + ["ks0= " + start, "-"]
            secs = ["B" + be, "M%d" % rng.choice([16, 24]), "S fh0i0 fr0 ks0=i er0 rr0 tr0+%d" % d,
                    "Hf0:" + "/".join(hf), "He0:" + rng.choice(["ep0/ep0/ep0/-", "ep0/-", "ep0 rp0/-", "kr0/-"]),
                    "Hr0:" + rng.choice(["-", "rp0/-", "ep0/-"]), "Hk0:" + rng.choice(["-", "kr0/-", "ep0/-"]),
                    "Ht0:eu0 ru0 fu0"]
            cases.append(";".join(secs))
        # continuation chains: a task handler schedules its next slice through a FRESHLY initialised task object (kx = free +
        # IV_TASK_INIT, kr = register) or by re-registering itself, and calls iv_quit at some slice: every slice is one
        # loop iteration (quit test + kernel poll in between), iv_main returns right after the quitting slice
        for _ in range(max(10, n // 12)):
            be = rng.choice(self.backends)
            k = rng.randint(2, 6)
            qat = rng.randint(1, k)
            step = rng.choice(["kx0 kr0", "kx0 kr0", "kr0", "kx1 kr1"])
            lists = [(step + (" q" if i + 1 == qat else "")) for i in range(k)] + ["-"]
            secs = ["B" + be, "M%d" % rng.choice([12, 20]), "S kr0" + rng.choice(["", " tr0+50000000", " fh0i0 fr0 ks0=i"]),
                    "Hk0:" + "/".join(lists)]
            if "kr1" in step:
                secs.append("Hk1:" + rng.choice(["kx0 kr0/-", "kx1 kr1 q/-", "-"]))
            secs += ["Ht0:q", "Hf0:ks0="]
            cases.append(";".join(secs))
        # "blocks in the kernel only when nothing is due" with a timer population that exercises the heap (interior
        # cancellations, re-registrations): the family of C04 (seed C07_9: a damaged heap hides a due timer under a later one).
        # Generated LAST, so that the cases of the families above are the ones earlier seeds were found with.
        cases = cases + heap_traffic_cases(self.backends, rng, max(40, n // 8))
        return cases


class C09(CoreCheck):
    pid = "C09"
    core_leaf = True
    codes = [(900, 1000), (105, 106)]
    profiles = ["event", "event", "mixed"]
    with_faults = 0.5
    rule = ("raw events posted from set-up, from handlers (including its own, after the read) and 'externally' at wait time (stand-in for "
            "other threads / signal handlers / children writing the descriptor), bursts, eventfd2 / old eventfd / pipe fall-backs, also switching mid-run (eventfd creation failing from the k-th call on: eventfd- and pipe-backed objects side by side); "
            "non-trivial = >= 1 raw-event callback; distinct = distinct scenario text")
    assumptions = ["single-threaded scenarios: posts by other contexts are kernel-side counter increments injected at wait entry or between "
                   "actions; the interleaving of a poster with the owner inside iv_event_raw_got_event is covered by the MT checks",
                   "bursts larger than a pipe buffer (65535 .. 70000 posts) run in the thorough tier only (three per round; the model "
                   "needs about two minutes for one); the quick tier uses bursts up to 16384; the pipe semantics of the virtual kernel "
                   "(65536 bytes, then EAGAIN, never blocking) is probed against Linux on every C15 run (vk_smoke)"]

    def nontrivial(self, case, mo):
        return self.count(mo, r"\| Cr") >= 1

    def gen_cases(self, ctx, rng, n):
        self._big_bursts = 0
        cases = CoreCheck.gen_cases(self, ctx, rng, n)
        # a raw event re-posted from inside its own handler (after the read) and bursts from outside,
        # with nothing else keeping the loop awake
        for _ in range(n // 4):
            be = rng.choice(self.backends)
            fl = rng.choice([None, None, ["noeventfd2"], ["noeventfd"], ["eintr@2"]])
            k = rng.randint(1, 4)
            lists = ["rp0" if i < k else rng.choice(["-", "ru0", "rp1"]) for i in range(k + 1)]
            secs = ["B" + be] + (["X" + ",".join(fl)] if fl else []) + ["M%d" % rng.choice([8, 12])]
            secs.append("S rr0 rr1 " + rng.choice(["rp0", "rp0 rp0 rp0", "rp1 rp0"]) + rng.choice(["", " tr0+5000000"]))
            secs.append("Hr0:" + "/".join(lists))
            secs.append("Hr1:" + rng.choice(["-", "rp0", "ru1", "rp0 ru1"]))
            secs.append("Ht0:" + rng.choice(["rp0", "rp1", "-"]))
            for w in range(2, 6):
                if rng.random() < 0.4:
                    secs.append("W%d:%s" % (w, " ".join(["rp%d" % rng.randint(0, 1)] * rng.choice([1, 3, 70]))[:120]))
            cases.append(";".join(secs))
        # eventfd2 / eventfd failing from the k-th creation on: mixed transports, posts to objects on both sides of the cut
        for _ in range(n // 4):
            cases.append(core_gen.efd_cut(rng, rng.choice(self.backends)))
        # long bursts around the read size of the pipe fall-back (1024) and beyond a pipe buffer (65536),
        # on every transport, posted before the loop runs and while it is blocked
        for _ in range(max(6, n // 40)):
            be = rng.choice(self.backends)
            fl = rng.choice([["noeventfd"], ["noeventfd"], ["noeventfd2"], None])
            # consecutive identical posts are one trace segment ("a rp0 *N", ivsim.c / core_drv.ml.in), so bursts beyond a
            # pipe buffer (65536) fit below the trace cap; the model needs ~2 minutes for such a case, so only the thorough
            # tier has them, and only a few per round
            big = ctx.tier != "quick" and self._big_bursts < 3 and rng.random() < 0.5
            if big:
                self._big_bursts += 1
                burst = rng.choice([65535, 65536, 65537, 70000])
            else:
                burst = rng.choice([1023, 1024, 1025, 2047, 2048, 3072, 4096, 1024, 8192, 16384])
            where = rng.choice(["S", "W"])
            secs = ["B" + be] + (["X" + ",".join(fl)] if fl else []) + ["M6"]
            posts = " ".join(["rp0"] * burst)
            if where == "S":
                secs.append("S rr0 " + posts)
            else:
                secs.append("S rr0 tr0+1000000000")
                secs.append("W1:" + posts)
                secs.append("Ht0:-")
            secs.append("Hr0:" + rng.choice(["-", "-/ru0", "rp0/-"]))
            cases.append(";".join(secs))
        # bursts beyond a pipe buffer on EVERY run (also the quick tier): the extracted model is too slow for them
        # (minutes), so these cases run the implementation and the Coq monitors on its trace only (no trace equality):
        # pseudo-cases "BIGBURST <scenario>"
        for _ in range(4 if ctx.tier == "quick" else 12):
            be = rng.choice(self.backends)
            fl = rng.choice([["noeventfd"], ["noeventfd"], ["noeventfd"], ["noeventfd2"]])
            burst = rng.choice([65535, 65536, 65537, 70000, 131073])
            secs = ["B" + be, "X" + ",".join(fl), "M6"]
            posts = " ".join(["rp0"] * burst)
            if rng.random() < 0.5:
                secs.append("S rr0 " + posts)
            else:
                secs += ["S rr0 tr0+1000000000", "W1:" + posts, "Ht0:-"]
            secs.append("Hr0:" + rng.choice(["-", "-/ru0", "rp0/-", "rp0 rp0/ru0"]))
            cases.append("BIGBURST " + ";".join(secs))
        return cases

    def correspond(self, ctx, cases):
        import runner
        small = [i for i, c in enumerate(cases) if not c.startswith("BIGBURST ")]
        big = [i for i, c in enumerate(cases) if c.startswith("BIGBURST ")]
        s0 = CoreCheck.correspond(self, ctx, [cases[i] for i in small])
        n = len(cases)
        st = {"n": n, "div": [], "crashes": [], "monfail": [], "nontrivial": s0["nontrivial"], "mres": [("", None)] * n,
              "ires": [("", None)] * n, "mon": ["OK"] * n, "monfail_other_properties": s0.get("monfail_other_properties", 0)}
        for key in ("div", "crashes", "monfail"):
            st[key] += [(small[j], why) for j, why in s0[key]]
        for j, i in enumerate(small):
            st["mres"][i] = s0["mres"][j]
            st["ires"][i] = s0["ires"][j]
            if s0["mon"] is not None:
                st["mon"][i] = s0["mon"][j]
        if big:
            scen = [cases[i][9:] for i in big]
            ires = runner.run_cases_sharded(self.impl_cmd(ctx), scen, timeout=self.timeout(ctx), env=dict(runner.ASAN_ENV))
            mon = runner.run_monitor(self.monitor_cmd(ctx), scen, [r[0] or "" for r in ires], ctx.work)
            for i, (io, ierr), v in zip(big, ires, mon):
                st["ires"][i] = (io, ierr)
                st["mres"][i] = ("(burst beyond a pipe buffer: implementation + Coq monitors only, no model trace)", None)
                st["mon"][i] = v
                if ierr is not None or not io:
                    st["crashes"].append((i, ierr or "no output (the scenario did not finish: a post blocked or spun?)"))
                elif " | CRASH" in io:
                    st["crashes"].append((i, io.rsplit(" | ", 1)[-1][:600]))
                elif not v.startswith("OK"):
                    st["monfail"].append((i, v + " (monitor clauses on the implementation trace of a big burst)"))
                elif " | Cr0" in io:
                    st["nontrivial"] += 1
        for key in ("div", "crashes", "monfail"):
            st[key].sort(key=lambda x: x[0])
        return st

    def shrink(self, ctx, case):
        # a big burst is already a minimal description (one run-length segment); a hanging variant costs 20 s per try
        return case if case.startswith("BIGBURST ") else CoreCheck.shrink(self, ctx, case)

    def widen(self, ctx, case):
        return [] if case.startswith("BIGBURST ") else CoreCheck.widen(self, ctx, case)

    def distribution(self, cases):
        d = CoreCheck.distribution(self, [c for c in cases if not c.startswith("BIGBURST ")])
        d["bursts_beyond_a_pipe_buffer_implementation_and_monitors_only"] = sum(1 for c in cases if c.startswith("BIGBURST "))
        return d


class C18(CoreCheck):
    pid = "C18"
    codes = [(1800, 1900), (706, 707)]
    profiles = ["mixed", "fd", "event", "quit"]
    rule = ("all scenario families on all four poll methods, every object individually allocated, poisoned and freed at the earliest "
            "allowed moment under ASan/UBSan/LSan; end-of-run accounting (numobjs after tear-down, open library descriptors after "
            "iv_deinit); non-trivial = the run reached tear-down (D event); distinct = distinct scenario text.  Plus thread churn on the real "
            "kernel (harness/churn.c, ASan/LSan): three batches of short-lived threads per poll method, each initialising a loop, using one "
            "object of every kind (+ work pool with workers / iv_thread child), ending by iv_deinit, by plain return (TLS destructor) or "
            "by pthread_exit; open descriptors must equal the baseline after every batch and live heap bytes must not grow from batch 2 to 3.  "
            "Plus the two small pieces under every other model (lib/c18small.py): " + c18small.RULE)
    corr_name = (CoreCheck.corr_name + "; TLS stage: tls_drv(real iv_tls.c through iv_init/iv_deinit, library users included) = extracted "
                 "TlsModel (every state_offset, total size, init/deinit hook order and areas, aborts); LIST stage: list_drv(real iv_list.h, "
                 "__iv_list_steal_elements) = extracted ListPtrModel (next/prev of every node after every operation)")
    trusted_extra = c18small.TRUSTED

    @property
    def coq_targets(self):
        return CORE_VO + self.coq_extra + c18small.VO

    def pre_proof(self, ctx):
        """tie (a) for iv_tls.c: regenerate Gen/LeafTls.v (and the other generated files) from the current C source"""
        import importlib.util
        spec = importlib.util.spec_from_file_location("c2gallina", os.path.join(vlib.VERIF, "gen", "c2gallina.py"))
        mod = importlib.util.module_from_spec(spec)
        spec.loader.exec_module(mod)
        with vlib.Lock(os.path.join(vlib.COQ, ".lock")):
            err = mod.main()
        if err:
            return "leaf translator failed (Gen/LeafTls.v not regenerated, tie broken): " + err
        err = getattr(mod, "LAST_ERRORS", {}).get("LeafTls.v")
        return ("iv_tls.c translator failed (tie broken): " + err) if err else None

    @staticmethod
    def kind(case):
        if case.startswith("CHURN "):
            return "CHURN"
        return c18small.kind(case) or "scen"

    def nontrivial(self, case, mo):
        k = self.kind(case)
        if k == "CHURN":
            return True
        if k in ("TLS", "LIST"):
            return c18small.nontrivial(case)
        return " | D open=" in (mo or "")

    # ---- thread churn on the real kernel (harness/churn.c): the clause "or a thread that used the library exits ...
    # repeated init/use/deinit cycles and thread churn do not grow the process" cannot be exercised by the sequential
    # scenario interpreter; it is observed on real threads under ASan/LSan
    def sibling_stages(self):
        # C18 anchors iv_fd_pump.c (cached pump buffers / splice pipes): decided by the C17 machinery (per-case descriptor
        # and leak accounting of the pump driver)
        import c17
        return [("C17", c17.C17)]

    CHURN_METHODS = ["", "epoll-timerfd", "epoll-timerfd epoll", "epoll-timerfd epoll ppoll"]

    def build(self, ctx):
        from concurrent.futures import ThreadPoolExecutor
        self.small_d = os.path.join(ctx.work, "small")
        with ThreadPoolExecutor(max_workers=2) as ex:
            fs = ex.submit(c18small.build, self.small_d)
            ok, out = CoreCheck.build(self, ctx)
            if ok:
                ok, out2 = vlib.cc_build(self.d, "churn", ["churn.c"], vlib.LIB_SRCS, wraps=["pthread_create"])
                out += out2
            oks, outs, self.tls_probe = fs.result()
        if not ok:
            return ok, out
        if not oks:
            return False, out + "\nTLS / LIST stage (lib/c18small.py):\n" + outs
        return True, out + outs

    def run_churn(self, case):
        """case = 'CHURN <method index> <seed> <threads per batch>'; returns None or the reason it fails"""
        import subprocess
        _, mi, seed, n = case.split()
        env = dict(os.environ, IV_EXCLUDE_POLL_METHOD=self.CHURN_METHODS[int(mi)])
        env.update(runner.ASAN_ENV)
        try:
            p = subprocess.run([os.path.join(self.d, "churn"), seed, n], stdout=subprocess.PIPE, stderr=subprocess.PIPE, text=True,
                               errors="replace", timeout=300, env=env)
        except subprocess.TimeoutExpired:
            return "thread churn program did not finish (hang)"
        m = re.search(r"CHURN method (\S+) fds (\d+) (\d+) (\d+) (\d+) heap (\d+) (\d+) (\d+) threads (\d+)", p.stdout)
        if p.returncode != 0 or not m:
            return "thread churn program failed (rc=%d): %s %s" % (p.returncode, p.stdout[-300:], p.stderr[-2500:])
        if "CHURN-THREADS-LEFT" in p.stdout:
            return "threads started by the library are still alive 20 s after their loops' owners finished: " + p.stdout[-300:]
        f0, f1, f2, f3, h1, h2, h3 = [int(x) for x in m.groups()[1:8]]
        self.churn_methods.add(m.group(1))
        if not (f0 == f1 == f2 == f3):
            return ("descriptors leak over init/use/deinit cycles and thread exits (%s): open descriptors %d at start, %d %d %d after "
                    "three batches of %s threads" % (m.group(1), f0, f1, f2, f3, n))
        if h3 > h2:
            return ("live heap grows with thread churn (%s): %d bytes after batch 2, %d after batch 3 (%s threads per batch; batch 1 "
                    "warms up process-wide state)" % (m.group(1), h2, h3, n))
        return None

    def cases(self, ctx):
        cases = CoreCheck.cases(self, ctx)
        # the two small pieces: iv_tls.c and iv_list.h (pseudo-cases TLS ... / LIST ..., see lib/c18small.py)
        rng = vlib.rng_for(ctx.seed, "C18small")
        quick = ctx.tier == "quick"
        cases += c18small.gen_tls(rng, self.tls_probe, 150 if quick else 2500)
        cases += c18small.gen_list(rng, 400 if quick else 8000)
        reps = 2 if quick else 12
        self.n_churn = 0
        for mi in range(len(self.CHURN_METHODS)):
            for r in range(reps):
                cases.append("CHURN %d %d %d" % (mi, ctx.seed * 100 + r, 24 if quick else 60))
                self.n_churn += 1
        return cases

    def correspond(self, ctx, cases):
        from concurrent.futures import ThreadPoolExecutor
        kinds = [self.kind(c) for c in cases]
        at = {k: [i for i, kk in enumerate(kinds) if kk == k] for k in ("scen", "CHURN", "TLS", "LIST")}
        n = len(cases)
        st = {"n": n, "div": [], "crashes": [], "monfail": [], "nontrivial": 0, "mres": [("", None)] * n,
              "ires": [("", None)] * n, "mon": ["OK"] * n, "monfail_other_properties": 0}
        # scenarios: model vs ivsim + monitors
        if at["scen"]:
            s0 = CoreCheck.correspond(self, ctx, [cases[i] for i in at["scen"]])
            for key in ("div", "crashes", "monfail"):
                st[key] += [(at["scen"][j], why) for j, why in s0[key]]
            for j, i in enumerate(at["scen"]):
                st["mres"][i] = s0["mres"][j]
                st["ires"][i] = s0["ires"][j]
                if s0["mon"] is not None:
                    st["mon"][i] = s0["mon"][j]
            st["nontrivial"] += s0["nontrivial"]
            st["monfail_other_properties"] = s0.get("monfail_other_properties", 0)
        # iv_tls.c / iv_list.h: extracted model vs harness on the real code
        small = at["TLS"] + at["LIST"]
        if small:
            res = c18small.correspond(self.small_d, [cases[i] for i in small], timeout=self.timeout(ctx))
            seen = set()
            for i, (mo, io, div, crash) in zip(small, res):
                st["mres"][i] = (mo, None)
                st["ires"][i] = (io, None)
                if crash:
                    st["crashes"].append((i, crash))
                elif div:
                    st["div"].append((i, div))
                if self.nontrivial(cases[i], mo) and cases[i] not in seen:
                    seen.add(cases[i])
                    st["nontrivial"] += 1
        # thread churn
        self.churn_methods = getattr(self, "churn_methods", set())
        if at["CHURN"]:
            with ThreadPoolExecutor(max_workers=4) as ex:
                res = list(ex.map(self.run_churn, [cases[i] for i in at["CHURN"]]))
            for i, why in zip(at["CHURN"], res):
                if why:
                    st["crashes"].append((i, why))
                else:
                    st["nontrivial"] += 1
        for key in ("div", "crashes", "monfail"):
            st[key].sort(key=lambda x: x[0])
        return st

    def _small_fails(self, ctx, case):
        st = self.correspond(ctx, [case])
        return bool(st["crashes"])

    def shrink(self, ctx, case):
        k = self.kind(case)
        if k == "CHURN":
            return case
        if k == "TLS":
            return c18small.shrink_tls(case, lambda c: self._small_fails(ctx, c))
        if k == "LIST":
            return c18small.shrink_list(case, lambda c: self._small_fails(ctx, c))
        return CoreCheck.shrink(self, ctx, case)

    def widen(self, ctx, case):
        return [] if self.kind(case) != "scen" else CoreCheck.widen(self, ctx, case)

    def describe(self, case):
        k = self.kind(case)
        if k == "CHURN":
            return {"thread_churn": case, "excluded_poll_methods": self.CHURN_METHODS[int(case.split()[1])]}
        if k in ("TLS", "LIST"):
            return c18small.describe(case)
        return CoreCheck.describe(self, case)

    def signature(self, case, why):
        k = self.kind(case)
        if k == "CHURN":
            return "churn"
        if k in ("TLS", "LIST"):
            return "small:" + k.lower()
        return CoreCheck.signature(self, case, why)

    def distribution(self, cases):
        d = CoreCheck.distribution(self, [c for c in cases if self.kind(c) == "scen"])
        d["thread_churn_runs"] = sum(1 for c in cases if c.startswith("CHURN "))
        d["thread_churn_methods"] = sorted(getattr(self, "churn_methods", []))
        d.update(c18small.distribution(cases))
        return d


class C15(CoreCheck):
    pid = "C15"
    leaf = True
    core_leaf = True
    codes = [(1500, 1600), (100, 1200), (1800, 1900)]
    profiles = ["mixed", "fd", "timer", "event"]
    with_faults = 0.8
    rule = ("the C01-C09 scenario programs x 4 poll methods x EINTR on the k-th wait / k-th epoll_ctl x each optional system call failing "
            "(ENOSYS/EPERM) from its first call -- eventfd2 / eventfd also from the k-th creation on (efdok=<k>: objects registered before and after the cut, posts to both, re-registration across the cut, the epoll kick descriptor re-created after it) --, plus groups of 4 order-independent scenarios (one per poll method) whose callback sequences "
            "must be identical; non-trivial = a fault was injected or the method is not the default, and >= 1 callback ran; distinct = "
            "distinct scenario text.  Plus: 180+ generated IV_EXCLUDE_POLL_METHOD strings (all subsets and orders of the four names, "
            "unknown tokens, prefixes / extensions of method names, over-long tokens, every kind of whitespace, empty, unset) for which "
            "the real library (harness/method_smoke.c) must select the method Core/MethodSel.v `select` computes; and the virtual "
            "kernel's assumptions probed against Linux (harness/vk_smoke.c)")

    def gen_cases(self, ctx, rng, n):
        cases = CoreCheck.gen_cases(self, ctx, rng, n)
        # "a missing eventfd changes nothing": the same raw-event burst on eventfd2, on the old eventfd call and on the pipe
        # fall-back, with burst sizes around the read size of the fall-back (1024) -- the family of C09 (seed C09_9: the
        # fall-back loses a burst that is an exact multiple of its read size)
        for burst in (1, 1000, 1024, 1025, 2048):
            for fl in (None, "noeventfd2", "noeventfd"):
                be = rng.choice(self.backends)
                secs = ["B" + be] + (["X" + fl] if fl else []) + ["M6"]
                posts = " ".join(["rp0"] * burst)
                if rng.random() < 0.5:
                    secs.append("S rr0 " + posts)
                else:
                    secs += ["S rr0 tr0+1000000000", "W1:" + posts, "Ht0:-"]
                secs.append("Hr0:" + rng.choice(["-", "-/ru0"]))
                cases.append(";".join(secs))
        return cases

    def sibling_stages(self):
        # C15 anchors iv_fd_pump.c (splice missing -> read/write fall-back): both transfer modes are driven by the C17 machinery
        import c17
        return [("C17", c17.C17)]

    def cross_body(self, rng):
        """order-independent scenario (one user descriptor, ms-multiple timers) run on all four methods"""
        g = core_gen.Gen(rng, rng.choice(["timer", "task", "event", "mixed"]))
        g.nf = 1
        g.nr = 0
        # no timer that is due at the moment it is registered: under epoll-timerfd the loop may dispatch a still-ready
        # descriptor once more before it runs such a timer (run_timers is only set when the wait timed out), the other
        # methods run it first -- both orders satisfy C04, so such programs are not order-independent
        g.rel = lambda: rng.choice([1000000, 1000000, 5000000, 5000000, 20000000, 1000000000])
        old_action = g.action

        def action(ctx):
            for _ in range(20):
                a = old_action(ctx)
                if not a.startswith("ca") and not a.startswith("tr") or (a.startswith("tr") and "+" in a):
                    return a
            return "kr0"
        g.action = action
        return g.scenario(backend="et").split(";", 1)[1]

    def cases(self, ctx):
        cases = CoreCheck.cases(self, ctx)
        rng = vlib.rng_for(ctx.seed, "C15k")
        for _ in range(120 if ctx.tier == "quick" else 2400):
            cases.append(core_gen.efd_cut(rng, rng.choice(core_gen.BACKENDS)))
        rng = vlib.rng_for(ctx.seed, "C15x")
        self.groups = []
        for _ in range(60 if ctx.tier == "quick" else 1200):
            body = self.cross_body(rng)
            start = len(cases)
            for b in core_gen.BACKENDS:
                cases.append("B%s;%s" % (b, body))
            self.groups.append(start)
        return cases

    def nontrivial(self, case, mo):
        return (";X" in case or not case.startswith("Bet")) and bool(re.search(r"\| C[ftker]", mo or ""))

    def kernel_smoke(self, ctx):
        """the virtual kernel's assumptions about Linux, probed on the real kernel (harness/vk_smoke.c)"""
        import subprocess
        d = os.path.join(ctx.work, "smoke")
        os.makedirs(d, exist_ok=True)
        src = os.path.join(vlib.VERIF, "harness", "vk_smoke.c")
        r1 = vlib.sh(["gcc", "-O1", "-D_GNU_SOURCE", src, "-o", os.path.join(d, "real")], timeout=120)
        r2 = vlib.sh(["gcc", "-O1", "-D_GNU_SOURCE", "-DVK_SMOKE_VIRTUAL", "-I" + os.path.join(vlib.VERIF, "harness"), src,
                      os.path.join(vlib.VERIF, "harness", "vk.c"), "-o", os.path.join(d, "virt")] +
                     ["-Wl,--wrap=" + w for w in vlib.VK_WRAPS], timeout=120)
        if r1[0] != 0 or r2[0] != 0:
            return "vk_smoke does not build: " + (r1[1] + r2[1])[-400:]
        a = vlib.sh([os.path.join(d, "real")], timeout=60)[1]
        b = vlib.sh([os.path.join(d, "virt")], timeout=60)[1]
        self.smoke_probes = len(a.splitlines())
        if a != b:
            la, lb = a.splitlines(), b.splitlines()
            for x, y in zip(la, lb):
                if x != y:
                    return "virtual kernel disagrees with Linux: real `%s` vs virtual `%s`" % (x, y)
            return "virtual kernel disagrees with Linux (output length)"
        return None

    def method_selection(self, ctx, st, cases):
        """every method exclusion requested through the environment: real library vs Core/MethodSel.v (lib/methodsel.py)"""
        import methodsel
        d = os.path.join(ctx.work, "msel")
        ok, out = vlib.cc_build(d, "method_smoke", ["method_smoke.c"], vlib.LIB_SRCS, san=False)
        if not ok:
            st["div"].append((0, "method_smoke does not build: " + out[-400:]))
            return
        n, fails, broken = methodsel.run(os.path.join(d, "method_smoke"), vlib.rng_for(ctx.seed, "C15msel"), d,
                                         150 if ctx.tier == "quick" else 1500)
        self.msel_cases = getattr(self, "msel_cases", 0) + n
        if broken:
            st["div"].append((0, broken))
        for desc, why in fails[:5]:
            cases.append("MSEL " + desc)
            st["mres"].append(("", None))
            st["ires"].append(("", None))
            if st["mon"] is not None:
                st["mon"].append("OK")
            st["crashes"].append((len(cases) - 1, "poll-method selection: " + why))
        st["n"] += n

    def shrink(self, ctx, case):
        return case if case.startswith("MSEL ") else CoreCheck.shrink(self, ctx, case)

    def describe(self, case):
        return {"method_exclusion": case[5:]} if case.startswith("MSEL ") else CoreCheck.describe(self, case)

    def correspond(self, ctx, cases):
        if len(cases) == 1 and cases[0].startswith("MSEL "):
            st = CoreCheck.correspond(self, ctx, [])
            self.method_selection(ctx, st, [])
            return st
        st = CoreCheck.correspond(self, ctx, cases)
        if len(cases) > 10:
            why = self.kernel_smoke(ctx)
            if why:
                st["div"].append((0, why))
            self.method_selection(ctx, st, cases)
        # cross-method agreement on the implementation traces
        for start in getattr(self, "groups", []):
            if start + 4 > len(cases):
                continue
            seqs = []
            okay = True
            for k in range(4):
                io = st["ires"][start + k][0]
                if io is None or " | D open=" not in io:
                    okay = False
                    break
                seqs.append([re.sub(r" @\d+", "", s) for s in io.split(" | ") if s[:1] == "C"])
            if okay and any(s != seqs[0] for s in seqs[1:]):
                k = [i for i in range(1, 4) if seqs[i] != seqs[0]][0]
                st["monfail"].append((start + k, "FAIL 1510 : callback sequence differs between poll methods %s and %s on the same program: %s vs %s"
                                      % (cases[start][1:3], cases[start + k][1:3], seqs[0][:12], seqs[k][:12])))
        return st


COMMON_ASSUMPTIONS = [
    "scenario alphabet: at most 16 objects of each kind (descriptors, timers, tasks, iv_events, raw events), handler ids 0..15, "
    "conditions 0..15 (wf_scenario / ok_idx); within it the theorems quantify over all programs, handler scripts, kernel "
    "behaviours, poll methods and fault sets; one loop, one init/use/deinit cycle per scenario (cycles and thread churn: harness/churn.c)",
]
ALL = {"C01": C01, "C02": C02, "C03": C03, "C04": C04, "C06": C06, "C07": C07, "C09": C09, "C15": C15, "C18": C18}
for _c in ALL.values():
    _c.assumptions = list(getattr(_c, "assumptions", [])) + COMMON_ASSUMPTIONS
