"""Common machinery for the /verif checks (see DESIGN.md section 3).

Everything a check needs: building the Coq development, compiling a property
file and parsing its Print Assumptions output, extraction + OCaml model
runners, building C harnesses from /repo's current working tree, evidence
files, the verdict protocol (VIOLATION / KNOWN-FINDING lines).
"""
import fcntl
import hashlib
import json
import os
import random
import re
import shutil
import subprocess
import sys
import time

VERIF = os.path.dirname(os.path.dirname(os.path.abspath(__file__)))
REPO = os.environ.get("VERIF_REPO", "/repo")
COQ = os.path.join(VERIF, "coq")
BUILD = os.path.join(VERIF, "build")
# VERIF_EVID redirects the evidence files (used when a check is pointed at a scratch copy with VERIF_REPO, so that
# experiments never overwrite the evidence of the real tree)
EVID = os.environ.get("VERIF_EVID", os.path.join(VERIF, "evidence"))
NPROC = os.cpu_count() or 4

FORBIDDEN = re.compile(
    r"\b(Admitted|admit|Axiom|Axioms|Parameter|Parameters|Conjecture|Conjectures|"
    r"Unset\s+Guard|bypass_check|type-in-type|impredicative-set|Admit\s+Obligations)\b")

# stdlib axioms that may legitimately appear in Print Assumptions
STDLIB_AXIOMS = (
    "functional_extensionality_dep", "proof_irrelevance", "eq_rect_eq",
    "classic", "JMeq_eq", "propositional_extensionality",
)


def log(*a):
    print(*a, flush=True)


def sh(cmd, cwd=None, timeout=None, env=None, inp=None):
    """Run a command, return (rc, stdout+stderr)."""
    try:
        p = subprocess.run(cmd, cwd=cwd, timeout=timeout, env=env, input=inp,
                           stdout=subprocess.PIPE, stderr=subprocess.STDOUT,
                           shell=isinstance(cmd, str), text=True, errors="replace")
        return p.returncode, p.stdout
    except subprocess.TimeoutExpired as e:
        out = e.stdout or ""
        if isinstance(out, bytes):
            out = out.decode(errors="replace")
        return 124, out + "\n[timeout after %ss]" % timeout


class Lock:
    def __init__(self, path):
        self.path = path

    def __enter__(self):
        os.makedirs(os.path.dirname(self.path), exist_ok=True)
        self.f = open(self.path, "w")
        fcntl.flock(self.f, fcntl.LOCK_EX)
        return self

    def __exit__(self, *a):
        fcntl.flock(self.f, fcntl.LOCK_UN)
        self.f.close()


# --------------------------------------------------------------------------
# Coq


def grep_gate():
    """Reject forbidden vernacular anywhere in the development."""
    bad = []
    listed = [l.strip() for l in open(os.path.join(COQ, "_CoqProject")) if l.strip().endswith(".v")]
    ext = os.path.join(COQ, "theories", "Extract")
    listed += [os.path.join("theories", "Extract", f) for f in sorted(os.listdir(ext)) if f.endswith(".v")]
    for rel in listed:
        for p in [os.path.join(COQ, rel)]:
            if not os.path.exists(p):
                bad.append("%s: listed in _CoqProject but missing" % rel)
                continue
            txt = open(p, errors="replace").read()
            # strip comments (non-nested approximation, nested handled by loop)
            prev = None
            while prev != txt:
                prev = txt
                txt = re.sub(r"\(\*(?:(?!\(\*|\*\)).)*\*\)", " ", txt, flags=re.S)
            for m in FORBIDDEN.finditer(txt):
                bad.append("%s: %s" % (os.path.relpath(p, COQ), m.group(0)))
            # Variable/Hypothesis outside a Section
            depth = 0
            for line in txt.splitlines():
                s = line.strip()
                if re.match(r"Section\s+\w+", s):
                    depth += 1
                elif re.match(r"End\s+\w+", s) and depth > 0:
                    depth -= 1
                elif depth == 0 and re.match(r"(Variable|Variables|Hypothesis|Hypotheses|Context)\b", s):
                    bad.append("%s: %s outside Section" % (os.path.relpath(p, COQ), s.split()[0]))
    return bad


def coq_make(targets, timeout=3000):
    """make the given .vo targets (paths relative to coq/).  Returns (ok, log)."""
    with Lock(os.path.join(COQ, ".lock")):
        mk = os.path.join(COQ, "Makefile")
        cp = os.path.join(COQ, "_CoqProject")
        if (not os.path.exists(mk)) or os.path.getmtime(mk) < os.path.getmtime(cp):
            rc, out = sh(["coq_makefile", "-f", "_CoqProject", "-o", "Makefile"], cwd=COQ, timeout=120)
            if rc != 0:
                return False, out
        rc, out = sh(["make", "-k", "-j%d" % NPROC] + list(targets), cwd=COQ, timeout=timeout)
        return rc == 0, out


def coq_compile_props(pid, timeout=900):
    """Compile theories/Props/Properties_<pid>.v directly (its dependencies
    must have been made) so that the Print Assumptions output is captured on
    every run.  Returns dict with theorem names, assumptions, ok, log."""
    src = os.path.join(COQ, "theories", "Props", "Properties_%s.v" % pid)
    txt = open(src).read()
    names = re.findall(r"^\s*(?:Theorem|Lemma|Corollary)\s+(\w+)", txt, flags=re.M)
    examples = re.findall(r"^\s*Example\s+(\w+)", txt, flags=re.M)
    with Lock(os.path.join(COQ, ".lock")):
        t0 = time.time()
        rc, out = sh(["coqc", "-Q", "theories", "Ivv", "theories/Props/Properties_%s.v" % pid],
                     cwd=COQ, timeout=timeout)
    # parse Print Assumptions blocks: coqc prints either
    #   "Closed under the global context"  or  "Axioms:\n name : type ..."
    blocks = []
    cur = None
    for line in out.splitlines():
        if line.startswith("Closed under the global context"):
            blocks.append([])
            cur = None
        elif line.startswith("Axioms:"):
            cur = []
            blocks.append(cur)
        elif cur is not None:
            m = re.match(r"^(\S+)\s*:", line)
            if m:
                cur.append(m.group(1))
            elif line and not line.startswith(" "):
                cur = None
    printed = len(re.findall(r"Print\s+Assumptions\s+(\w+)", txt))
    assumptions = {}
    pa_names = re.findall(r"Print\s+Assumptions\s+(\w+)", txt)
    for i, n in enumerate(pa_names):
        if i < len(blocks):
            assumptions[n] = blocks[i]
    return {
        "ok": rc == 0, "rc": rc, "log": out, "theorems": names, "examples": examples,
        "assumptions": assumptions, "printed": printed, "wall_s": time.time() - t0,
    }


def coq_extract(vfile, outdir):
    """Run an extraction file (theories/Extract*.v) with cwd=outdir so that the
    .ml/.mli land there."""
    os.makedirs(outdir, exist_ok=True)
    with Lock(os.path.join(COQ, ".lock")):
        rc, out = sh(["coqc", "-Q", os.path.join(COQ, "theories"), "Ivv",
                      os.path.join(COQ, "theories", vfile)], cwd=outdir, timeout=900)
    return rc == 0, out


def ocaml_build(outdir, modules, exe):
    """ocamlfind ocamlopt the extracted module(s) + driver into exe.
    modules: list of .ml (with optional .mli beside) in dependency order."""
    args = ["ocamlfind", "ocamlopt", "-O3" if False else "-w", "-a"]
    files = []
    for m in modules:
        mli = m[:-3] + ".mli"
        if os.path.exists(os.path.join(outdir, mli)):
            files.append(mli)
        files.append(m)
    rc, out = sh(args + files + ["-o", exe], cwd=outdir, timeout=600)
    return rc == 0, out


# --------------------------------------------------------------------------
# C harness from /repo

LIB_SRCS = ["iv_avl", "iv_event", "iv_fatal", "iv_task", "iv_timer", "iv_tls", "iv_work",
            "iv_event_raw_posix", "iv_fd", "iv_fd_poll", "iv_fd_pump", "iv_main_posix",
            "iv_popen", "iv_signal", "iv_thread_posix", "iv_tid_posix", "iv_time_posix",
            "iv_wait", "iv_fd_epoll", "iv_inotify"]

SAN = ["-fsanitize=address,undefined", "-fno-sanitize-recover=all", "-fno-omit-frame-pointer"]


def repo_include_flags(outdir):
    """iv.h is generated from iv.h.in by configure (one substitution: the header
    that declares struct timespec).  Regenerate a private copy from the current
    iv.h.in so that the harness follows the working tree.  config.h comes from
    /repo (configure output); a saved copy is used if it is absent."""
    inc = os.path.join(outdir, "include")
    os.makedirs(inc, exist_ok=True)
    txt = open(os.path.join(REPO, "src", "include", "iv.h.in")).read()
    txt = txt.replace("@ac_cv_timespec_hdr@", "sys/time.h")
    with open(os.path.join(inc, "iv.h"), "w") as f:
        f.write(txt)
    cfg = os.path.join(REPO, "config.h")
    if not os.path.exists(cfg):
        cfg = os.path.join(VERIF, "harness", "config.h.fallback")
    shutil.copy(cfg, os.path.join(inc, "config.h"))
    return ["-D_GNU_SOURCE", "-DHAVE_CONFIG_H", "-I" + inc, "-I" + os.path.join(REPO, "src", "include"),
            "-I" + os.path.join(REPO, "src")]


def cc_build(outdir, exe, harness_srcs, lib_srcs=None, extra=None, san=True, opt="-O1", wraps=None,
             defines=None, cc="gcc", ldflags=None, san_flags=None):
    """Compile harness sources (under /verif/harness) and the named library
    sources straight from /repo/src into outdir/exe.  Returns (ok, log)."""
    os.makedirs(outdir, exist_ok=True)
    flags = repo_include_flags(outdir) + [opt, "-g", "-pthread", "-DIVYKIS_VERIF"]
    sanf = san_flags if san_flags is not None else SAN
    if san:
        flags += sanf
    for d in (defines or []):
        flags.append("-D" + d)
    flags += (extra or [])
    objs = []
    jobs = []
    for s in (lib_srcs or []):
        src = os.path.join(REPO, "src", s + ".c")
        obj = os.path.join(outdir, "lib_" + s + ".o")
        jobs.append((src, obj))
    for s in harness_srcs:
        src = os.path.join(VERIF, "harness", s)
        obj = os.path.join(outdir, "h_" + os.path.basename(s).replace(".c", ".o"))
        jobs.append((src, obj))
    procs = []
    logs = []
    ok = True
    # compile in parallel
    for src, obj in jobs:
        p = subprocess.Popen([cc] + flags + ["-I" + os.path.join(VERIF, "harness"), "-c", src, "-o", obj],
                             stdout=subprocess.PIPE, stderr=subprocess.STDOUT, text=True)
        procs.append((p, src))
        objs.append(obj)
    for p, src in procs:
        out, _ = p.communicate()
        if p.returncode != 0:
            ok = False
            logs.append("compile failed: %s\n%s" % (src, out))
        elif out.strip():
            logs.append(out)
    if not ok:
        return False, "\n".join(logs)
    link = [cc] + objs + ["-o", os.path.join(outdir, exe), "-pthread"] + (sanf if san else []) + (ldflags or [])
    for w in (wraps or []):
        link.append("-Wl,--wrap=" + w)
    rc, out = sh(link, timeout=300)
    logs.append(out)
    return rc == 0, "\n".join(logs)


# --------------------------------------------------------------------------
# evidence / verdict


def seed_from_env():
    try:
        return int(os.environ.get("VERIF_SEED", "1"))
    except ValueError:
        return 1


def rng_for(seed, label):
    h = hashlib.sha256(("%d:%s" % (seed, label)).encode()).digest()
    return random.Random(int.from_bytes(h[:8], "big"))


def load_known():
    path = os.path.join(VERIF, "known_findings.txt")
    findings = []
    if os.path.exists(path):
        for line in open(path):
            line = line.strip()
            if line.startswith("finding:"):
                m = re.match(r"finding:\s+property=(\S+)\s+signature=(\S+)\s+(.*)", line)
                if m:
                    findings.append({"property": m.group(1), "signature": m.group(2), "what": m.group(3)})
    return findings


def write_evidence(pid, tier, seed, coverage, wall_s, violations, assumptions):
    os.makedirs(EVID, exist_ok=True)
    ev = {
        "property_id": pid, "tier": tier, "seed": seed, "level": "proof",
        "coverage": coverage, "assumptions": assumptions, "wall_s": round(wall_s, 2),
        "violations": violations,
    }
    tmp = os.path.join(EVID, ".%s.json.tmp.%d" % (pid, os.getpid()))
    with open(tmp, "w") as f:
        json.dump(ev, f, indent=1, sort_keys=True)
        f.write("\n")
    os.replace(tmp, os.path.join(EVID, "%s.json" % pid))


def write_replay(pid, name, content):
    # experiments on scratch copies (VERIF_EVID set) keep their replay files next to their evidence
    d = os.path.join(os.environ["VERIF_EVID"], "replay") if os.environ.get("VERIF_EVID") else os.path.join(BUILD, "replay")
    os.makedirs(d, exist_ok=True)
    p = os.path.join(d, "%s_%s.txt" % (pid, name))
    with open(p, "w") as f:
        f.write(content)
    return p


class Verdict:
    """Collects the outcome of one check run and prints the protocol lines."""

    def __init__(self, pid):
        self.pid = pid
        self.violations = []      # (replay_path, has_input)
        self.known = []
        self.known_db = [k for k in load_known() if k["property"] == pid]

    def report(self, signature, what, replay_text, has_input=True):
        """A monitor failed / sanitizer fired (has_input) or a proof/correspondence
        broke without a failing input (has_input=False)."""
        for k in self.known_db:
            if has_input and k["signature"] == signature:
                if signature not in [s for s, _ in self.known]:
                    self.known.append((signature, k["what"]))
                    log("KNOWN-FINDING: property=%s %s" % (self.pid, k["what"]))
                return
        tag = re.sub(r"[^A-Za-z0-9_.-]", "_", signature)[:60]
        path = write_replay(self.pid, tag, replay_text)
        if (path, has_input) not in self.violations:
            self.violations.append((path, has_input))
            if has_input:
                log("VIOLATION property=%s replay=%s" % (self.pid, path))
            else:
                log("VIOLATION property=%s replay=%s no-failing-input-found" % (self.pid, path))

    def exit_code(self):
        return 1 if self.violations else 0


def run_sharded(items, worker, nshards=None):
    """Split items in nshards lists, run worker(shard_index, sublist) in a
    process pool, concatenate results in order."""
    from concurrent.futures import ProcessPoolExecutor
    n = nshards or NPROC
    shards = [items[i::n] for i in range(n)]
    res = [None] * n
    with ProcessPoolExecutor(max_workers=n) as ex:
        futs = {ex.submit(worker, i, shards[i]): i for i in range(n) if shards[i]}
        for f in futs:
            res[futs[f]] = f.result()
    # re-interleave
    out = [None] * len(items)
    for i in range(n):
        if res[i] is None:
            continue
        for j, r in enumerate(res[i]):
            out[i + j * n] = r
    return out


VK_WRAPS = ["clock_gettime", "gettimeofday", "epoll_create", "epoll_create1", "eventfd", "syscall", "pipe",
            "timerfd_create", "timerfd_settime", "epoll_ctl", "epoll_wait", "epoll_pwait2", "poll", "ppoll",
            "read", "write", "close", "fcntl", "setsockopt"]

MT_WRAPS = VK_WRAPS + ["pthread_create", "pthread_join", "pthread_detach", "pthread_key_create", "pthread_getspecific",
                       "pthread_setspecific", "pthread_mutex_init", "pthread_mutex_destroy", "pthread_mutex_lock",
                       "pthread_mutex_unlock", "pthread_spin_init", "pthread_spin_lock", "pthread_spin_unlock",
                       "sigaction", "pthread_sigmask", "pthread_exit", "pthread_atfork", "getpid", "fork", "wait4", "kill"]
