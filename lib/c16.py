"""C16 -- AVL tree: proofs in Avl/AvlProofs.v, tie = avl_drv (C, /repo/src/iv_avl.c)
vs the extracted AvlModel on identical cases, full structural dump after every op;
second stage: `avl_drv ptr` vs the extracted pointer-level model Avl/AvlPtrModel.v
(every field of every live node object by allocation serial, after every op)."""
import functools
import os

import vlib
import runner
import framework
from framework import LineCheck

PTR_TAG = "pointer-level store: "


@functools.lru_cache(maxsize=None)
def shapes(h):
    """all AVL shapes of height exactly h, as nested tuples (l, r) / None"""
    if h == 0:
        return (None,)
    if h == 1:
        return ((None, None),)
    out = []
    for (hl, hr) in ((h - 1, h - 1), (h - 1, h - 2), (h - 2, h - 1)):
        for l in shapes(hl):
            for r in shapes(hr):
                out.append((l, r))
    return tuple(out)


def nnodes(s):
    return 0 if s is None else 1 + nnodes(s[0]) + nnodes(s[1])


def tokens(s, base=0):
    """pre-order tokens with in-order keys 2,4,6,... ; returns (tokens, n)"""
    if s is None:
        return ["."], 0
    lt, ln = tokens(s[0], base)
    key = 2 * (base + ln + 1)
    rt, rn = tokens(s[1], base + ln + 1)
    return [str(key)] + lt + rt, ln + 1 + rn


class C16(LineCheck):
    pid = "C16"
    coq_targets = ["theories/Avl/AvlModel.vo", "theories/Avl/AvlMonitor.vo", "theories/Avl/AvlProofs.vo",
                   "theories/Avl/AvlPtrModel.vo", "theories/Avl/AvlPtrC16.vo", "theories/Avl/AvlPtrHist.vo",
                   "theories/Base/CSem.vo", "theories/Gen/LeafAvl.vo", "theories/Avl/AvlLink.vo"]
    corr_name = ("correspondence avl_drv(iv_avl.c) = extracted AvlModel (rc, full tree dump with heights and parent keys, next/prev "
                 "traversals after every op) and avl_drv ptr(iv_avl.c) = extracted AvlPtrModel (rc, root pointer, the "
                 "left/right/parent/height/key fields of every live node object named by allocation serial, next/prev traversals "
                 "by node identity, after every op)")
    trusted = [
        "gen/c2gallina.py (class CTr: clang JSON AST -> Gen/LeafAvl.v, rerun on every check) and the C integer semantics Base/CSem.v "
        "(None = null dereference / signed overflow): height(), recalc_height(), balance() and the five tests / assignments of "
        "rebalance_node() are translated and proved equal to ht / mk / balance / the thresholds -2, 2, <= 0, < 0 of Avl/AvlModel.v for "
        "stored heights in [0, 255] (C16_balance_arith_is_the_code); node pointers are addresses (0 = NULL), a pointer that is only "
        "dereferenced is assumed valid; the rotations themselves (pointer surgery) are not translated",
        "pointer surgery of iv_avl.c (left/right/parent fields, height) is transcribed statement by statement over a store id -> {left,right,parent,height,key} (AvlPtrModel: NULL / dangling dereferences and exhausted loop bounds are explicit error outcomes) and PROVED to refine the functional tree model (Avl/AvlPtr*.v: RepF incl. parent-pointer consistency and no sharing; insert / delete / min / max / next / prev / for_each; C16_ptr_* theorems); what stays trusted is the transcription itself, tied to the C text by the per-operation comparison of all fields of all live node objects + root + traversals by node identity (and the functional model by the tree dump comparison)",
        "height is Z in AvlPtrModel, uint8_t in C: a tree of height 255 needs more than 2^176 nodes (C16_height_log); not modelled",
        "avl_drv.c builds start shapes by writing node fields directly and locates delete victims by its own BST search; in ptr mode it names node objects by allocation serial through its own registry of live objects (a pointer to anything else prints as `?`); avl_ptr_drv.ml.in builds the same start store directly (pre-order ids, exact heights, parent ids)",
        "the pointer-level model run uses fuel 64 for every loop and garbage fields (left=right=parent=id 1, height 170) for a fresh node; the C harness fills a fresh node with one of four byte patterns",
    ]
    assumptions = [
        "keys are mathematical integers (Z) compared by <; the C comparator used by the harness is integer comparison",
        "delete is only called for a node that is in the tree (API contract)",
    ]
    rule = ("cases = every AVL shape of height <= 4 (335 shapes; height 5 sampled in thorough) x every insert gap, every deletable node and "
            "every node handed to insert a second time while linked (op I: leaf, interior node, root), "
            "plus seeded random mixed insert/delete histories with duplicate keys over small key ranges; a case is non-trivial when some "
            "successful or rejected (-1) operation acts on a tree of >= 3 nodes (rebalancing walks a path of length >= 2); distinct = distinct case text; "
            "every case runs through both stages: tree dump vs AvlModel + monitor, and pointer-level dump (all fields of all live node "
            "objects by allocation serial, root, traversals by node identity) vs AvlPtrModel, after every operation")

    # way (a) of the tie for the height / balance arithmetic: re-translated from the current source on every run
    # (gen/c2gallina.py -> Gen/LeafAvl.v); Avl/AvlLink.v proves the translations equal to ht / mk / balance / rebalance_node's tests
    def pre_proof(self, ctx):
        import leafgen
        return leafgen.regenerate(["LeafAvl.v"])

    def proofs(self, ctx):
        import leafgen
        return leafgen.explain(
            LineCheck.proofs(self, ctx), "AvlLink", "C16_balance_arith_is_the_code (Avl/AvlLink.v: leaf_height / leaf_recalc_height / "
            "leaf_balance / leaf_left_heavy / leaf_right_heavy / leaf_left_single / leaf_right_double / rebalance_node_is_the_code)",
            "height(), recalc_height() (`1 + ((hl > hr) ? hl : hr)` stored into the uint8_t field), balance() (`height(an->right) - "
            "height(an->left)`) or a test of rebalance_node() (`bal == -2`, `balance(root->left) <= 0`, `bal == 2`, "
            "`balance(root->right) < 0`) in the current src/iv_avl.c, as translated by gen/c2gallina.py into Gen/LeafAvl.v, is not the "
            "model's ht / mk / balance / rebalance_node any more")

    def build(self, ctx):
        d = os.path.join(ctx.work, "b")
        ok, out = vlib.coq_extract("Extract/ExtractAvl.v", d)
        if not ok:
            return False, out
        with open(os.path.join(d, "avl_drv.ml"), "w") as f:
            f.write("open Avl_model\n")
            f.write(open(os.path.join(vlib.VERIF, "ocaml", "zutil.ml.in")).read())
            f.write(open(os.path.join(vlib.VERIF, "ocaml", "avl_drv.ml.in")).read())
        ok, out2 = vlib.ocaml_build(d, ["avl_model.ml", "avl_drv.ml"], "avl_model_run")
        if not ok:
            return False, out + out2
        ok, out3 = vlib.cc_build(d, "avl_drv", ["avl_drv.c"], ["iv_avl"])
        if not ok:
            return False, out + out2 + out3
        # pointer-level stage: extracted AvlPtrModel + its driver
        ok, out4 = vlib.coq_extract("Extract/ExtractAvlPtr.v", d)
        if not ok:
            return False, out + out2 + out3 + out4
        with open(os.path.join(d, "avl_ptr_drv.ml"), "w") as f:
            f.write("open Avl_ptr_model\n")
            f.write(open(os.path.join(vlib.VERIF, "ocaml", "zutil.ml.in")).read())
            f.write(open(os.path.join(vlib.VERIF, "ocaml", "avl_ptr_drv.ml.in")).read())
        ok, out5 = vlib.ocaml_build(d, ["avl_ptr_model.ml", "avl_ptr_drv.ml"], "avl_ptr_model_run")
        self.d = d
        return ok, out + out2 + out3 + out4 + out5

    def model_cmd(self, ctx):
        return [os.path.join(self.d, "avl_model_run"), "run"]

    def impl_cmd(self, ctx):
        return [os.path.join(self.d, "avl_drv")]

    def monitor_cmd(self, ctx):
        return [os.path.join(self.d, "avl_model_run"), "mon"]

    def ptr_model_cmd(self, ctx):
        return [os.path.join(self.d, "avl_ptr_model_run"), "run"]

    def ptr_impl_cmd(self, ctx):
        return [os.path.join(self.d, "avl_drv"), "ptr"]

    ptr_ops = 0          # operations compared (and found equal) at the pointer level, over all correspond() calls
    ptr_cases = 0

    def correspond_ptr(self, ctx, cases):
        """pointer-level stage alone: extracted AvlPtrModel vs `avl_drv ptr` on the same cases.
        Returns {"div": [(idx, why)], "crashes": [(idx, stderr)], "pmres": ..., "pires": ..., "ops": n}"""
        env = dict(runner.ASAN_ENV)
        env.update(self.impl_env or {})
        pm = runner.run_cases_sharded(self.ptr_model_cmd(ctx), cases, timeout=self.timeout(ctx))
        pi = runner.run_cases_sharded(self.ptr_impl_cmd(ctx), cases, timeout=self.timeout(ctx), env=env)
        div, crashes, ops, eq = [], [], 0, 0
        for idx in range(len(cases)):
            mo, merr = pm[idx]
            io, ierr = pi[idx]
            if merr is not None or mo is None:
                div.append((idx, PTR_TAG + "model runner failed: %s" % (merr or "")[:300]))
                continue
            if ierr is not None:
                crashes.append((idx, "(avl_drv ptr) " + ierr))
            elif io != mo:
                div.append((idx, PTR_TAG + framework.first_diff(mo, io)))
            else:
                eq += 1
                ops += mo.count(" | ") + 1 if mo else 0
        return {"div": div, "crashes": crashes, "pmres": pm, "pires": pi, "ops": ops, "cases_equal": eq}

    def correspond(self, ctx, cases):
        st = LineCheck.correspond(self, ctx, cases)
        ps = self.correspond_ptr(ctx, cases)
        st["div"] = sorted(st["div"] + ps["div"], key=lambda x: x[0])
        have = set(i for i, _ in st["crashes"])
        st["crashes"] = sorted(st["crashes"] + [(i, e) for i, e in ps["crashes"] if i not in have], key=lambda x: x[0])
        st["ptr"] = {"div": len(ps["div"]), "crashes": len(ps["crashes"]), "ops": ps["ops"], "cases_equal": ps["cases_equal"]}
        st["pmres"], st["pires"] = ps["pmres"], ps["pires"]
        self.ptr_ops += ps["ops"]
        self.ptr_cases += ps["cases_equal"]
        if len(cases) > 10:
            why = self.big_stage(ctx)
            if why:
                st["crashes"].append((0, why))
        self.last_st = st
        return st

    def big_stage(self, ctx):
        """large populations on the real code (harness/avl_big.c): 70000 ascending inserts, deletions, 200000 mixed
        operations, drain, with full structural checks (recorded = real heights, balance, height bound, traversals)"""
        import subprocess
        import runner
        d = os.path.join(ctx.work, "avlbig")
        ok, out = vlib.cc_build(d, "avl_big", ["avl_big.c"], ["iv_avl"], ldflags=["-lm"])
        if not ok:
            return "avl_big does not build: " + out[-600:]
        try:
            p = subprocess.run([os.path.join(d, "avl_big")], stdout=subprocess.PIPE, stderr=subprocess.PIPE, text=True,
                               errors="replace", timeout=300, env=dict(os.environ, **runner.ASAN_ENV))
        except subprocess.TimeoutExpired:
            return "avl_big (large populations on the real iv_avl.c): timeout"
        self.big_result = p.stdout.strip()
        if p.returncode != 0 or not p.stdout.startswith("OK"):
            return "avl_big (large populations on the real iv_avl.c, 70000 nodes): %s %s" % (p.stdout.strip(), p.stderr[-600:])
        return None

    def replay(self, ctx, path):
        rc = LineCheck.replay(self, ctx, path)
        st = getattr(self, "last_st", None)
        if st and st["n"] == 1:
            vlib.log("pointer-level model: %s" % (st["pmres"][0][0],))
            vlib.log("pointer-level impl : %s" % (st["pires"][0][0],))
            if st["pires"][0][1]:
                vlib.log("avl_drv ptr crash/sanitizer:\n" + st["pires"][0][1])
        return rc

    def cases(self, ctx):
        rng = vlib.rng_for(ctx.seed, "C16")
        cases = []
        corpus = os.path.join(vlib.VERIF, "corpus", "C16.txt")
        if os.path.exists(corpus):
            cases += [l.rstrip("\n") for l in open(corpus) if "|" in l]
        self.n_corpus = len(cases)
        # exhaustive single operations on every shape of height <= 4
        for h in range(0, 5):
            for s in shapes(h):
                toks, n = tokens(s)
                t = " ".join(toks)
                for g in range(n + 1):
                    cases.append("%s | i%d" % (t, 2 * g + 1))
                for k in range(1, n + 1):
                    cases.append("%s | d%d i%d" % (t, 2 * k, 2 * k))
                # double registration: the already linked node object (every node: leaves, interior nodes, the root)
                # is handed to insert again; then a fresh insert / a delete next to it works on whatever is left
                for k in range(1, n + 1):
                    cases.append("%s | I%d" % (t, 2 * k))
                    cases.append("%s | I%d i%d d%d" % (t, 2 * k, 2 * rng.randint(0, n) + 1, 2 * rng.randint(1, n)))
                if n:
                    cases.append("%s | i%d" % (t, 2 * rng.randint(1, n)))      # duplicate
        self.n_exh = len(cases) - self.n_corpus
        if ctx.tier == "thorough":
            for s in shapes(5):
                toks, n = tokens(s)
                t = " ".join(toks)
                for _ in range(2):
                    if rng.random() < 0.5:
                        cases.append("%s | i%d" % (t, 2 * rng.randint(0, n) + 1))
                    else:
                        k = 2 * rng.randint(1, n)
                        cases.append("%s | d%d" % (t, k))
                cases.append("%s | I%d" % (t, 2 * rng.randint(1, n)))
        # random histories
        nh = 400 if ctx.tier == "quick" else 6000
        self.n_hist = nh
        for i in range(nh):
            span = rng.choice([6, 12, 25, 60, 200])
            length = rng.choice([20, 60, 150]) if ctx.tier == "quick" else rng.choice([30, 100, 300, 600])
            pins = rng.choice([0.5, 0.6, 0.75])
            ops = []
            for _ in range(length):
                k = rng.randint(0, span)
                u = rng.random()
                ops.append(("I%d" if u < 0.12 else "i%d" if u < pins else "d%d") % k)
            cases.append(". | " + " ".join(ops))
        return cases

    def nontrivial(self, case, mo):
        if mo is None:
            return False
        for seg in mo.split(" | "):
            if (seg.startswith("rc 0") or seg.startswith("rc -1")) and seg.count(":") >= 4:
                return True
        return False

    def describe(self, case):
        return {"start_tree_preorder": case.split("|")[0].strip(), "ops": case.split("|")[1].strip()[:400]}

    def signature(self, case, why):
        return "avl:" + ("crash" if "crash" in why or "sanitizer" in why else "monitor")

    def distribution(self, cases):
        ins = sum(c.split("|")[1].count("i") for c in cases)
        reins = sum(c.split("|")[1].count("I") for c in cases)
        dele = sum(c.split("|")[1].count("d") for c in cases)
        return {"corpus_cases": self.n_corpus, "exhaustive_shape_cases": self.n_exh, "random_histories": self.n_hist,
                "insert_ops": ins, "insert_linked_node_ops": reins, "delete_ops": dele,
                "pointer_level_cases_equal": self.ptr_cases, "pointer_level_ops_compared": self.ptr_ops}

    def _fails(self, ctx, case):
        st = self.correspond(ctx, [case])
        return bool(st["crashes"] or st["monfail"])

    def shrink(self, ctx, case):
        tree, ops = case.split("|")
        ops = ops.split()
        if len(ops) <= 1:
            return case
        tries = 0
        chunk = max(1, len(ops) // 2)
        while chunk >= 1 and tries < 120:
            i = 0
            changed = False
            while i < len(ops) and tries < 120:
                cand = ops[:i] + ops[i + chunk:]
                tries += 1
                if cand and self._fails(ctx, tree + "| " + " ".join(cand)):
                    ops = cand
                    changed = True
                else:
                    i += chunk
            if not changed or chunk == 1:
                chunk //= 2
        return tree + "| " + " ".join(ops)

    def widen(self, ctx, case):
        # single-op decomposition of a diverging history: replay prefixes
        tree, ops = case.split("|")
        ops = ops.split()
        return [tree + "| " + " ".join(ops[:k]) for k in range(1, min(len(ops), 40) + 1)]
