"""leafgen.py -- shared pre_proof helper of the checks whose proofs depend on definitions that gen/c2gallina.py
re-translates from the current C source (way (a) of the tie, see DESIGN.md): rerun the translator (under the Coq lock,
the generated files live in coq/theories/Gen) and report translation failures of the generated files the caller owns."""
import importlib.util
import os

import vlib


def regenerate(files, legacy=False):
    """files: names of the generated files of the typed translations (e.g. ["LeafWork.v"]) that the caller's proofs depend
    on: exactly these are re-translated (a check does not rewrite the generated files of other properties, so that runs
    against different source trees do not disturb each other); the empty list = every generated file.
    Returns an error string (the proof step is then reported as broken) or None."""
    spec = importlib.util.spec_from_file_location("c2gallina", os.path.join(vlib.VERIF, "gen", "c2gallina.py"))
    mod = importlib.util.module_from_spec(spec)
    spec.loader.exec_module(mod)
    with vlib.Lock(os.path.join(vlib.COQ, ".lock")):
        err = mod.main() if legacy else None        # Gen/Leaf.v, LeafTimer.v, LeafTls.v (whole leaf functions)
        err = err or mod.main(None, list(files) if files else "all")
    if err:
        return "leaf translator failed (generated files not rewritten, tie broken): " + err
    errs = [getattr(mod, "LAST_ERRORS", {}).get(f) for f in files]
    errs = [e for e in errs if e]
    return ("leaf translator failed (tie broken): " + "; ".join(errs)) if errs else None


def explain(st, marker, theorem, what):
    """if the proof status st is broken and mentions `marker` (the link file / generated file), prefix the message with the
    name of the link theorem that no longer holds and what it ties"""
    b = st.get("broken")
    if b and (marker in b or "leaf translator failed" in b):
        st["broken"] = "theorem %s no longer holds: %s.  %s" % (theorem, what, b)
    return st


# generated files of the typed translations per property (the check of that property is the one that rewrites them)
OWNED = {"C12": ["LeafWork.v"], "C19": ["LeafPopen.v"], "C16": ["LeafAvl.v"], "C20": ["LeafInotify.v"], "C10": ["LeafSignal.v"],
         "C11": ["LeafWait.v"]}

if __name__ == "__main__":
    # `leafgen.py <property> ...`: re-translate the files these properties own from the tree named by VERIF_REPO (default
    # /repo) -- used by gen/mt_mutants.py to put the generated files back right after a run against an edited scratch copy
    import sys
    for pr in sys.argv[1:]:
        if pr in OWNED:
            e = regenerate(OWNED[pr])
            if e:
                print(e)
                sys.exit(1)
