"""C12 / C13 -- iv_work (items run once in a worker, complete once in the owner, all finish) and pool shutdown /
iv_thread lifetime.  Proofs in MT/WorkMT*.v; tie = acceptance of the log of the real iv_work.c + iv_thread_posix.c
(real threads, baton scheduler, virtual time) by the extracted transition system MT/WorkMT.v, plus the extracted
monitors on the same log."""
import os
import re

import leafgen
import vlib
from framework import LineCheck
from mtcheck import MTCheck

NITEM = 8
S = 1000000000


class Scen:
    """one scenario under construction: set-up actions of loop 0, handler scripts, schedule"""

    def __init__(self, rng, maxthr):
        self.rng = rng
        self.maxthr = maxthr
        self.setup = ["wc0=%d" % maxthr]
        self.scripts = {}           # key ("w", i) -> list of action lists (per invocation)
        self.free_items = list(range(NITEM))
        rng.shuffle(self.free_items)
        self.free_timers = list(range(8))
        self.free_helpers = list(range(1, 8))
        self.sched = ""
        self.m = 120

    def item(self):
        return self.free_items.pop() if self.free_items else None

    def add(self, key, acts, invocation=0):
        ls = self.scripts.setdefault(key, [])
        while len(ls) <= invocation:
            ls.append([])
        ls[invocation] += acts

    def timer(self, delay_ns, acts, where=None):
        """register a timer of loop 0 (from the set-up or from script `where`) whose callback runs acts"""
        if not self.free_timers:
            return False
        j = self.free_timers.pop()
        reg = "tr%d+%d" % (j, delay_ns)
        if where is None:
            self.setup.append(reg)
        else:
            self.add(where, [reg])
        self.add(("t", j), acts)
        return True

    def helper(self, ending, where=None):
        if not self.free_helpers:
            return
        n = self.free_helpers.pop()
        if where is None:
            self.setup.append("tc%d" % n)
        else:
            self.add(where, ["tc%d" % n])
        self.add(("h", n), ending.split())

    def text(self):
        secs = ["Bet", "M%d" % self.m]
        if self.sched:
            secs.append("Z" + self.sched)
        secs.append("L0:" + " ".join(self.setup))
        for (k, j), ls in sorted(self.scripts.items()):
            if not any(ls):
                continue
            if k in "wc" and ls[-1]:
                ls = ls + [[]]      # the last list is repeated for later invocations: end with an empty one
            secs.append("H0%s%d:%s" % (k, j, "/".join(" ".join(l) if l else "-" for l in ls)))
        return ";".join(secs)


HELPER_ENDINGS = ["", "y", "hx", "y hx", "hi", "hi y", "hi hd", "hi y hd", "hi hx", "hi y hx", "hi hd hx", "hi hd y hx", "y y hi y hd y"]


def schedule(rng, nthr, n, style):
    """schedule string: which thread runs at each successive yield point"""
    ids = "0123456789abcdef"[:nthr + 1]
    out = []
    if style == "owner_first":
        # the submitter runs ahead, the workers start late (threads still starting when more work / put arrives)
        out.append("0" * rng.randint(5, 40))
    elif style == "workers_first":
        out.append("".join(rng.choice(ids[1:]) for _ in range(rng.randint(5, 40))))
    while sum(len(x) for x in out) < n:
        r = rng.random()
        if style == "uniform":
            out.append("".join(rng.choice(ids) for _ in range(16)))
            continue
        if style == "pingpong" or r < 0.25:
            a, b = rng.choice(ids), rng.choice(ids)
            out.append((a + b) * rng.randint(1, 6))
        elif r < 0.6:
            out.append(rng.choice(ids) * rng.randint(1, 9))
        elif r < 0.8:
            out.append("".join(rng.choice(ids[1:]) for _ in range(rng.randint(1, 8))))
        else:
            out.append("".join(rng.choice(ids) for _ in range(rng.randint(1, 8))))
    return "".join(out)[:n]


STYLES = ["random", "random", "owner_first", "workers_first", "pingpong"]

DELAYS = [0, 1, 5 * S, 10 * S, 10 * S, 10 * S, 10 * S + 1, 15 * S, 20 * S, 20 * S, 25 * S, 30 * S]


def place_put(sc, rng, where_items, allow_setup=True, allow_timer=True):
    """put the pool somewhere: set-up (at the current position), a completion, a timer callback, a local work
    function.  Returns the name of the place."""
    opts = []
    if allow_setup:
        opts += ["setup"] * 2
    if where_items:
        opts += ["compl"] * 3
    if allow_timer:
        opts += ["timer"] * 3
    if not opts:
        return "none"
    o = rng.choice(opts)
    if o == "setup":
        sc.setup.append("wp0")
    elif o == "compl":
        i = rng.choice(where_items)
        sc.add(("c", i), ["wp0"])
    else:
        if not sc.timer(rng.choice(DELAYS), ["wp0"]):
            sc.setup.append("wp0")
            return "setup"
    return o


def gen_burst(rng, put=None):
    """bursts of submissions from the owner, resubmission from completions, later submissions from timers"""
    m = rng.choice([1, 1, 2, 2, 3, 4])
    sc = Scen(rng, m)
    k = rng.choice([1, 2, 3, 4, 5, 6, 8]) if m < 3 else rng.choice([3, 4, 6, 8])
    used = []
    put = put if put is not None else rng.choice(["none", "none", "any", "any", "any", "first"])
    if put == "first":
        sc.setup.append("wp0")
    cut = rng.randint(0, k) if put == "any" and rng.random() < 0.35 else None
    for n in range(k):
        if cut is not None and n == cut:
            sc.setup.append("wp0")          # later submissions are skipped by the harness guard (pool no longer live)
            put = "done"
        i = sc.item()
        if i is None:
            break
        used.append(i)
        sc.setup.append("ws0.%d" % i)
        r = rng.random()
        if r < 0.25:
            sc.add(("w", i), ["y"] * rng.randint(1, 3))
        if rng.random() < 0.3:
            # the completion submits the same item again (once or twice)
            for inv in range(rng.randint(1, 2)):
                sc.add(("c", i), ["ws0.%d" % i], inv)
        elif rng.random() < 0.2:
            j = sc.item()
            if j is not None:
                sc.add(("c", i), ["ws0.%d" % j])
                used.append(j)
    # submissions after the pool went idle / after the idle timeout
    for _ in range(rng.choice([0, 0, 1, 1, 2, 3])):
        j = sc.item()
        if j is None:
            break
        if sc.timer(rng.choice(DELAYS), ["ws0.%d" % j]):
            used.append(j)
    if put == "any":
        place_put(sc, rng, used)
    for _ in range(rng.choice([0, 0, 0, 1, 2])):
        sc.helper(rng.choice(HELPER_ENDINGS), rng.choice([None, None, ("c", rng.choice(used))]) if used else None)
    sc.sched = schedule(rng, m + 2, rng.choice([0, 30, 80, 200, 400]), rng.choice(STYLES))
    return sc.text()


def gen_cont(rng):
    """continuations submitted from work functions (one chain) next to plain items"""
    m = rng.choice([1, 2, 2, 3, 4])
    sc = Scen(rng, m)
    chain = [sc.item() for _ in range(rng.randint(2, 4))]
    plain = [sc.item() for _ in range(rng.randint(0, 3))]
    order = [chain[0]] + plain
    rng.shuffle(order)
    for i in order:
        sc.setup.append("ws0.%d" % i)
    for a, b in zip(chain, chain[1:]):
        acts = ["wS0.0.%d" % b]
        if rng.random() < 0.4:
            acts = ["y"] + acts
        if rng.random() < 0.4:
            acts = acts + ["y"]
        sc.add(("w", a), acts)
    for i in plain:
        if rng.random() < 0.3:
            sc.add(("w", i), ["y"])
    r = rng.random()
    if r < 0.35:
        sc.add(("c", chain[-1]), ["wp0"])           # every continuation has been submitted by then
    elif r < 0.6:
        sc.timer(rng.choice([10 * S, 15 * S, 20 * S, 30 * S]), ["wp0"])   # time passes only when nobody runs
    if rng.random() < 0.3:
        sc.helper(rng.choice(HELPER_ENDINGS))
    sc.sched = schedule(rng, m + 1, rng.choice([0, 40, 120, 300]), rng.choice(STYLES))
    return sc.text()


def gen_needed(rng):
    """thread_needed: a continuation submitted from a work function while started < max posts the owner's
    thread_needed event; the owner meanwhile starts threads itself (set-up submissions after a few yields), so the handler
    runs with the pool already full; many items whose work functions yield several times, so that as many work
    functions as there are pool threads overlap"""
    m = rng.choice([1, 2, 2, 2, 3])
    sc = Scen(rng, m)
    first = sc.item()
    sc.setup.append("ws0.%d" % first)
    cont = sc.item()
    sc.add(("w", first), ["wS0.0.%d" % cont] + ["y"] * rng.randint(2, 5))
    sc.add(("w", cont), ["y"] * rng.randint(3, 5))
    sc.setup += ["y"] * rng.randint(1, 4)
    for _ in range(rng.randint(3, 6)):
        i = sc.item()
        if i is None:
            break
        sc.setup.append("ws0.%d" % i)
        sc.add(("w", i), ["y"] * rng.randint(3, 5))
        if rng.random() < 0.2:
            sc.setup.append("y")
    if rng.random() < 0.3:
        sc.timer(rng.choice([10 * S, 20 * S, 30 * S]), ["wp0"])
    sc.m = 200
    # long schedules: with an exhausted schedule the running thread keeps the baton and the work functions do not overlap
    sc.sched = schedule(rng, m + 2, rng.choice([400, 600, 900]), rng.choice(["uniform", "uniform", "random", "pingpong"]))
    return sc.text()



def gen_two_pools(rng):
    """SEARCH STAGE ONLY (no theorem: MT/WorkMT.v models one pool): two pools of one owner; items go to either pool from the
    set-up, from completions, from owner timers (also beyond the 10 s idle timeout, when every thread of a pool has
    exited) and as continuations from work functions of EITHER pool (a worker of pool 0 submitting to pool 1, whose
    threads may not exist yet or any more).  Every item is submitted at most once, so the log check is simple."""
    m0, m1 = rng.choice([1, 2, 2, 3]), rng.choice([1, 2, 2, 3])
    sc = Scen(rng, m0)
    sc.setup.append("wc1=%d" % m1)
    roots = []
    for _ in range(rng.randint(1, 3)):
        i = sc.item()
        roots.append(i)
        sc.setup.append("ws%d.%d" % (rng.choice([0, 0, 1]), i))
    frontier = list(roots)
    for _ in range(rng.randint(1, 5)):
        if not frontier:
            break
        a = rng.choice(frontier)
        b = sc.item()
        if b is None:
            break
        how = rng.random()
        if how < 0.6:
            acts = ["wS0.%d.%d" % (rng.choice([0, 1, 1]), b)]
            if rng.random() < 0.4:
                acts = ["y"] * rng.randint(1, 2) + acts
            if rng.random() < 0.5:
                acts = acts + ["y"] * rng.randint(1, 3)
            sc.add(("w", a), acts)
        elif how < 0.8:
            sc.add(("c", a), ["ws%d.%d" % (rng.choice([0, 1]), b)])
        else:
            if not sc.timer(rng.choice([0, 1, 5 * S, 10 * S, 10 * S + 1, 15 * S, 25 * S]), ["ws%d.%d" % (rng.choice([0, 1]), b)]):
                continue
        frontier.append(b)
        if rng.random() < 0.3:
            frontier.remove(a)
    sc.m = 160
    sc.sched = schedule(rng, m0 + m1 + 1, rng.choice([0, 40, 120, 300]), rng.choice(STYLES))
    return "2POOL " + sc.text()


def two_pool_log_check(case, log):
    """None, or why the log of a two-pool scenario violates C12: every executed submission is followed by exactly one work
    function in a pool thread (not the owner, thread 0), then exactly one completion in the owner; never more work
    functions of one pool at once than its max_threads; the run ends quiescent with nothing outstanding"""
    if log is None:
        return "no log"
    maxthr = {int(a): int(b) for a, b in re.findall(r"wc(\d+)=(\d+)", case)}
    pool_of, sub, started, ended, done = {}, {}, {}, {}, {}
    running = {}
    segs = log.split(" | ")
    for seg in segs:
        m = re.match(r"(\d+):(.*)$", seg)
        if not m:
            continue
        thr, ev = int(m.group(1)), m.group(2)
        mm = re.match(r"a ws(\d+)\.(\d+)$", ev) or re.match(r"a wS\d+\.(\d+)\.(\d+)$", ev)
        if mm:
            i = int(mm.group(2))
            sub[i] = sub.get(i, 0) + 1
            pool_of[i] = int(mm.group(1))
            continue
        mm = re.match(r"(Cw|Xw|Cc)\d+\.(\d+)$", ev)
        if not mm:
            continue
        k, i = mm.group(1), int(mm.group(2))
        if i not in sub:
            return "item %d: %s without a submission" % (i, k)
        pl = pool_of[i]
        if k == "Cw":
            if thr == 0:
                return "work function of item %d ran in the owner thread" % i
            started[i] = started.get(i, 0) + 1
            if started[i] > sub[i]:
                return "work function of item %d ran %d times for %d submission(s)" % (i, started[i], sub[i])
            running[pl] = running.get(pl, 0) + 1
            if running[pl] > maxthr.get(pl, 0):
                return "pool %d: %d work functions at once, max_threads = %d" % (pl, running[pl], maxthr.get(pl, 0))
        elif k == "Xw":
            ended[i] = ended.get(i, 0) + 1
            running[pl] = running.get(pl, 0) - 1
        else:
            if thr != 0:
                return "completion of item %d ran in thread %d, not in the owner" % (i, thr)
            done[i] = done.get(i, 0) + 1
            if done[i] > ended.get(i, 0):
                return "completion of item %d before / without its work function having returned" % i
    last = segs[-1] if segs else ""
    if "LIMIT" in last:
        return None                                     # wait budget of the harness used up: nothing to conclude
    if "CRASH" in log or "FATAL" in log:
        return "the library crashed / aborted: " + last[:200]
    for i, n in sorted(sub.items()):
        if started.get(i, 0) != n or done.get(i, 0) != n:
            return ("item %d (pool %d) was submitted %d time(s) but its work function ran %d time(s) and its completion %d time(s) "
                    "when the process went quiescent" % (i, pool_of[i], n, started.get(i, 0), done.get(i, 0)))
    return None

def gen_idle_race(rng):
    """kick vs idle timer: the pool goes idle at t0, its idle timers expire at t0 + 10 s; a timer of the owner
    expiring at the same virtual instant submits / puts"""
    m = rng.choice([1, 1, 2, 3])
    sc = Scen(rng, m)
    first = [sc.item() for _ in range(rng.randint(1, min(4, m + 1)))]
    for i in first:
        sc.setup.append("ws0.%d" % i)
    later = []
    for d in rng.sample([10 * S, 10 * S, 10 * S, 20 * S, 20 * S, 5 * S, 10 * S + 1, 15 * S, 30 * S], rng.randint(1, 3)):
        acts = []
        for _ in range(rng.randint(1, 2)):
            j = sc.item()
            if j is not None:
                acts.append("ws0.%d" % j)
                later.append(j)
        if rng.random() < 0.25:
            acts.append("wp0")
        if acts:
            sc.timer(d, acts)
    if rng.random() < 0.3:
        place_put(sc, rng, first + later, allow_setup=False)
    # the idle workers and the owner become runnable together after the clock jump: let the schedule decide
    sc.sched = schedule(rng, m + 1, rng.choice([60, 150, 300, 500]), rng.choice(["random", "pingpong", "workers_first", "random"]))
    return sc.text()


def gen_local(rng):
    """NULL pool: work and completion run from a task of the submitting thread; mixed with a real pool"""
    m = rng.choice([1, 2, 3])
    sc = Scen(rng, m)
    with_pool = rng.random() < 0.7
    if not with_pool:
        sc.setup = []
    loc = []
    for _ in range(rng.randint(1, 4)):
        i = sc.item()
        loc.append(i)
        sc.setup.append("wl%d" % i)
        if with_pool and rng.random() < 0.4:
            sc.setup.append("ws0.%d" % sc.item())
    for i in loc:
        r = rng.random()
        if r < 0.25:
            j = sc.item()
            if j is not None:
                sc.add((rng.choice("wc"), i), ["wl%d" % j])         # local submission from a local work function / completion
        elif r < 0.5 and with_pool:
            j = sc.item()
            if j is not None:
                sc.add((rng.choice("wc"), i), ["ws0.%d" % j])
                if rng.random() < 0.3:
                    jj = sc.item()
                    if jj is not None:
                        sc.add(("c", j), ["wl%d" % jj])
        elif r < 0.6:
            sc.add(("c", i), ["wl%d" % i])                          # the completion submits the item again
    if with_pool and rng.random() < 0.5:
        r = rng.random()
        if r < 0.4:
            sc.add((rng.choice("wc"), rng.choice(loc)), ["wp0"])
        elif r < 0.7:
            sc.setup.append("wp0")
        else:
            sc.timer(rng.choice(DELAYS), ["wp0"])
    if rng.random() < 0.3:
        j = sc.item()
        if j is not None:
            sc.timer(rng.choice([0, 1, 10 * S]), ["wl%d" % j])
    if rng.random() < 0.3:
        sc.helper(rng.choice(HELPER_ENDINGS), rng.choice([None, ("w", rng.choice(loc)), ("c", rng.choice(loc))]))
    sc.sched = schedule(rng, m + 1, rng.choice([0, 40, 120]), rng.choice(STYLES))
    return sc.text()


PUT_PLACES = ["first", "setup", "compl", "compl2", "timer0", "timer5", "timer10", "timer10b", "timer11", "timer20", "timer30", "work_local"]


def gen_put_at(rng, place=None, m=None, style=None):
    """pool shutdown at a chosen point relative to submissions, running work, idle / starting workers, idle timeouts"""
    m = m or rng.choice([1, 2, 3, 4])
    place = place or rng.choice(PUT_PLACES)
    sc = Scen(rng, m)
    k = rng.randint(1, 5)
    its = [sc.item() for _ in range(k)]
    pos = rng.randint(0, k)
    if place == "first":
        sc.setup.append("wp0")
    for n, i in enumerate(its):
        if place == "setup" and n == pos:
            sc.setup.append("wp0")
        sc.setup.append("ws0.%d" % i)
        if rng.random() < 0.3:
            sc.add(("w", i), ["y"] * rng.randint(1, 2))
        if rng.random() < 0.25:
            sc.add(("c", i), ["ws0.%d" % i])
    if place == "setup" and pos == k:
        sc.setup.append("wp0")
    if place == "compl":
        sc.add(("c", rng.choice(its)), ["wp0"])
    elif place == "compl2":
        i = rng.choice(its)
        sc.scripts[("c", i)] = [["ws0.%d" % i], ["wp0"]]             # put from the second completion of a resubmitted item
    elif place.startswith("timer"):
        d = {"timer0": 0, "timer5": 5 * S, "timer10": 10 * S, "timer10b": 10 * S + 1, "timer11": 11 * S, "timer20": 20 * S,
             "timer30": 30 * S}[place]
        acts = ["wp0"]
        if rng.random() < 0.4:
            j = sc.item()
            if j is not None:
                acts = ["ws0.%d" % j, "wp0"] if rng.random() < 0.7 else ["wp0", "ws0.%d" % j]
        sc.timer(d, acts)
        if rng.random() < 0.4:
            j = sc.item()
            if j is not None:
                sc.timer(rng.choice([5 * S, 10 * S, 20 * S]), ["ws0.%d" % j])
    elif place == "work_local":
        j = sc.item()
        if j is not None:
            sc.setup.insert(rng.randint(1, len(sc.setup)), "wl%d" % j)
            sc.add((rng.choice("wc"), j), ["wp0"])
    for _ in range(rng.choice([0, 0, 1, 2])):
        sc.helper(rng.choice(HELPER_ENDINGS), rng.choice([None, ("c", rng.choice(its))]))
    style = style or rng.choice(STYLES)
    sc.sched = schedule(rng, m + 2, rng.choice([0, 40, 100, 250, 500]), style)
    return sc.text()


def gen_helpers(rng):
    """threads made by iv_thread_create, every ending, created from the set-up, completions and timers"""
    sc = Scen(rng, rng.choice([1, 2]))
    with_pool = rng.random() < 0.5
    its = []
    if not with_pool:
        sc.setup = []
    else:
        for _ in range(rng.randint(1, 3)):
            i = sc.item()
            its.append(i)
            sc.setup.append("ws0.%d" % i)
    nh = rng.randint(1, 5)
    for _ in range(nh):
        r = rng.random()
        end = rng.choice(HELPER_ENDINGS)
        if r < 0.5 or not (its or sc.free_timers):
            sc.helper(end)
        elif r < 0.75 and its:
            sc.helper(end, ("c", rng.choice(its)))
        else:
            if sc.free_timers and sc.free_helpers:
                j = sc.free_timers[-1]
                if sc.timer(rng.choice([0, 1, 10 * S]), ["y"]):
                    sc.helper(end, ("t", j))
    if with_pool and rng.random() < 0.6:
        place_put(sc, rng, its)
    sc.sched = schedule(rng, nh + 3, rng.choice([0, 30, 100, 200]), rng.choice(STYLES))
    return sc.text()


def gen_foreign(rng):
    """FOREIGN submitters: helper threads made by the owner (iv_thread_create: neither the owner nor a thread of the pool --
    for the one pool of the model what a worker of another pool of the same owner is) call
    iv_work_pool_submit_continuation on the pool (called_from_owner_thread = 0: an idle thread is kicked, else with
    started < max the owner's thread_needed event is posted).  Each helper submits fresh items (each item once), at moments
    when the pool has no thread yet, all threads are busy (long work functions submitted by the owner), threads are idle
    (helper created by an owner timer after 1 ns .. 5 s) or have exited after the 10 s idle timeout (owner timer at
    11 .. 30 s).  No iv_work_pool_put in these scenarios (API contract: no put before / concurrent with a foreign
    submission; the put AFTER a foreign submission is gen_foreign_put)."""
    m = rng.choice([1, 1, 2, 2, 3])
    sc = Scen(rng, m)
    nh = rng.randint(1, 3)
    mode = rng.choice(["nothread", "busy", "idle", "timeout", "mixed", "mixed"])
    own_items = []
    if mode != "nothread" or rng.random() < 0.3:
        # the owner's own work: long (yielding) work functions keep every thread busy
        for _ in range(rng.randint(1, m + 1) if mode in ("busy", "mixed") else rng.randint(1, 2)):
            i = sc.item()
            own_items.append(i)
            if mode in ("busy", "mixed") or rng.random() < 0.3:
                sc.add(("w", i), ["y"] * rng.randint(2, 6))

    def helper_script():
        acts = ["y"] * rng.randint(0, 3)
        for _ in range(rng.randint(1, 2)):
            j = sc.item()
            if j is None:
                break
            acts.append("wS0.0.%d" % j)
            if rng.random() < 0.3:
                sc.add(("w", j), ["y"] * rng.randint(1, 3))
            acts += ["y"] * rng.randint(0, 2)
        acts += rng.choice(["", "", "y", "hx"]).split()
        return " ".join(acts)

    early = []                      # set-up actions, shuffled: submissions of the owner, helper creations, yields
    for i in own_items:
        early.append("ws0.%d" % i)
    for k in range(nh):
        how = mode if mode != "mixed" else rng.choice(["nothread", "busy", "idle", "timeout"])
        if how in ("nothread", "busy") or not sc.free_timers:
            if not sc.free_helpers:
                break
            n = sc.free_helpers.pop()
            early.append("tc%d" % n)
            sc.add(("h", n), helper_script().split())
        else:
            d = rng.choice([1, 1000, S, 5 * S]) if how == "idle" else rng.choice([10 * S, 10 * S + 1, 11 * S, 15 * S, 20 * S, 30 * S])
            j = sc.free_timers[-1]
            if sc.timer(d, ["y"] if rng.random() < 0.5 else []):
                sc.helper(helper_script(), ("t", j))
    if mode == "nothread":
        early = [a for a in early if a.startswith("tc")] + [a for a in early if not a.startswith("tc")]
    elif mode == "busy":
        early = [a for a in early if not a.startswith("tc")] + [a for a in early if a.startswith("tc")]
    else:
        rng.shuffle(early)
    for a in early:
        sc.setup.append(a)
        if rng.random() < 0.5:
            sc.setup += ["y"] * rng.randint(1, 3)
    sc.m = 160
    sc.sched = schedule(rng, m + nh + 1, rng.choice([0, 40, 120, 300, 500]), rng.choice(STYLES + ["uniform"]))
    return sc.text()


def gen_foreign_put(rng):
    """iv_work_pool_put right after a FOREIGN submission to a pool that has no thread (fix D10: the put starts a thread
    for the queued work instead of posting pool->ev and letting iv_work_event free the pool with the item queued).
    The helper is scheduled first (schedule = its thread index, long enough for its whole submit call and its exit), the
    owner then calls wp0 from the same set-up script / timer handler, i.e. before its loop has served thread_needed; the
    put does not overlap the helper's submit call (that would be a contract violation: REJECT).  Variants: from the
    set-up; from an owner timer; from an owner timer after the pool's only thread has exited on its idle timeout; two
    helpers one after the other."""
    m = rng.choice([1, 1, 2, 3])
    sc = Scen(rng, m)
    variant = rng.choice(["setup", "setup", "timer", "after_timeout", "two"])

    def script(nmax):
        acts = ["y"] * rng.randint(0, 1)
        for _ in range(rng.randint(1, nmax)):
            j = sc.item()
            if j is None:
                break
            acts.append("wS0.0.%d" % j)
            if rng.random() < 0.3:
                sc.add(("w", j), ["y"] * rng.randint(1, 2))
        return acts + rng.choice(["", "", "y", "hx"]).split()

    gap = ["y"] * rng.randint(0, 3)
    if variant == "setup":
        if rng.random() < 0.3:
            sc.setup.append("wl%d" % sc.item())
        sc.setup += ["tc1"] + gap + ["wp0"] + ["y"] * rng.randint(0, 2)
        sc.add(("h", 1), script(3))
        sc.sched = "1" * 80
    elif variant == "timer":
        sc.setup.append("tr0+%d" % rng.choice([1, 1000, S, 5 * S]))
        sc.add(("t", 0), ["tc1"] + gap + ["wp0"])
        sc.add(("h", 1), script(3))
        sc.sched = "1" * 80
    elif variant == "after_timeout":
        i = sc.item()
        sc.setup += ["ws0.%d" % i, "tr0+%d" % rng.choice([11 * S, 15 * S, 20 * S, 30 * S])]
        sc.add(("t", 0), ["tc1"] + gap + ["wp0"])
        sc.add(("h", 1), script(2))
        sc.sched = "2" * 400          # thread 1 = the pool thread of the first item (gone by then), thread 2 = the helper
    else:
        sc.setup += ["tc1", "y", "y", "tc2"] + ["y"] * 14 + ["wp0"]
        sc.add(("h", 1), ["wS0.0.%d" % sc.item()])
        sc.add(("h", 2), script(2))
        sc.sched = "1" * 14 + "2" * 60
    sc.m = 120
    return sc.text()


# ---------------------------------------------------------------------------------------------------------
PREEMPT_BODIES = ["L0:wc0=1 ws0.0", "L0:wc0=2 ws0.0 ws0.1", "L0:wc0=1 ws0.0 ws0.1;H0c1:wp0", "L0:wc0=2 ws0.0 ws0.1 ws0.2;H0c2:wp0",
                  "L0:wc0=1 ws0.0;H0w0:wS0.0.1", "L0:wc0=2 ws0.0 tr0+1;H0t0:ws0.1 ws0.2", "L0:wc0=1 ws0.0 wp0",
                  "L0:wc0=2 ws0.0 ws0.1;H0c0:ws0.2;H0c2:wp0"]


def gen_preempt(rng):
    """single-preemption sweep: one thread (a pool thread, or the owner) runs for k yield points, then the baton goes to one
    other thread, which -- the schedule being exhausted -- runs until it blocks, and so on (pick() of mt.c keeps the running
    thread while it is runnable).  With `Xkickyield` there is a yield point right AFTER a cross-thread kick has taken
    effect, so "the woken owner runs its whole event pass between two statements of the poster" is a schedule (seed C12_9:
    the owner looks at the done list, unlocked, between the worker's post and its list insertion)."""
    body = rng.choice(PREEMPT_BODIES)
    first = rng.choice("1112")
    k = rng.randint(1, 70)
    z = rng.choice(["", "", "0" * rng.randint(1, 30)]) + first * k + rng.choice(["0", "0", "02", "01", "20"])
    return "Bet;M%d;Xkickyield;Z%s;%s" % (rng.choice([40, 60]), z, body)


def log_features(log):
    """what happened in a log, for the non-triviality rules and the distribution report"""
    f = {"workers": 0, "switch_in_cs": False, "cont": False, "idle_exit": False, "rearm": False, "kick_idle": False,
         "put": False, "stop_after_put": False, "put_starting": False, "helper_te": False, "helper_init": False,
         "helpers": 0, "local": False, "self_kick": False, "needed": False, "foreign": False, "foreign_needed": False,
         "foreign_kick": False, "put_starts_thread": False, "end": ""}
    if not log:
        return f
    segs = []
    for s in log.split(" | "):
        m = re.match(r"^(\d+):(.*)$", s.strip())
        if m:
            segs.append((int(m.group(1)), m.group(2).strip()))
    if not segs:
        return f
    f["end"] = segs[-1][1].split()[0]
    holder = None            # thread inside a pool-lock section (between `L x<pool>` and `U x<pool>`)
    pool = None
    inact = {}
    prev = {}
    work_threads = set()
    started = set()
    hooked = set()
    put_seen = False
    helper_thr = set()       # threads running a helper body (logged Ch): foreign submitters when they submit
    for t, x in segs:
        if holder is not None and t != holder:
            f["switch_in_cs"] = True
        if x.startswith("a ws") or x.startswith("a wp") or x.startswith("a wS"):
            inact[t] = x
            if x.startswith("a wS"):
                f["cont"] = True
                if t in helper_thr:
                    f["foreign"] = True
            if x.startswith("a wp"):
                f["put"] = True
                put_seen = True
                if started - hooked:
                    f["put_starting"] = True
        elif x == "pe":
            inact.pop(t, None)
        elif x.startswith("a wl"):
            f["local"] = True
        elif x.startswith("L x") and pool is None and t in inact:
            pool = x[2:]
            holder = t
        elif pool is not None and x == "L " + pool:
            holder = t
            p = prev.get(t, "")
            if t != 0 and p.startswith("R n=0"):
                f["idle_exit"] = True      # the idle timer callback (no event was dispatched before the lock)
        elif pool is not None and x == "U " + pool:
            if t != 0 and prev.get(t, "") == "L " + pool and f["idle_exit"]:
                f["rearm"] = True
            holder = None
        elif x.startswith("Kk ") and t in inact and not x.endswith(" 1000"):
            f["kick_idle"] = True
            if t in helper_thr:
                f["foreign_kick"] = True
        elif x.startswith("L x") and holder == t and t != 0 and t in hooked and t not in inact:
            f["self_kick"] = True
        elif x.startswith("L e") and holder == t and t in inact and t != 0:
            f["needed"] = True
            if t in helper_thr:
                f["foreign_needed"] = True
        elif x.startswith("Cw") and t != 0:
            work_threads.add(t)
        elif x.startswith("Cs"):
            hooked.add(t)
        elif x.startswith("CS") and put_seen:
            f["stop_after_put"] = True
        elif x.startswith("Tc "):
            started.add(int(x[3:]))
            if inact.get(t, "").startswith("a wp"):
                f["put_starts_thread"] = True      # fix D10: work queued by a foreign submitter, no pool thread
        elif x.startswith("Ch"):
            f["helpers"] += 1
            helper_thr.add(t)
        elif x == "Te":
            f["helper_te"] = True
        elif x == "a hi":
            f["helper_init"] = True
        prev[t] = x
    f["workers"] = len(work_threads)
    return f


def _listed():
    try:
        return open(os.path.join(vlib.COQ, "_CoqProject")).read().split()
    except OSError:
        return []


def _coq_targets():
    """the WorkMT files in dependency order; those not (yet) listed in _CoqProject have no make rule and are left to the
    direct compilation of the Properties file (their .vo files are kept in the tree)"""
    names = ["WorkMT", "WorkMTMon", "WorkMTBase", "WorkMTSpec", "WorkMTCs", "WorkMTInvA", "WorkMTInvW", "WorkMTInvW4", "WorkMTInvW5",
             "WorkMTProofs", "WorkMTInvI", "WorkMTInvT", "WorkMTSim", "WorkMTFinal"]
    try:
        listed = open(os.path.join(vlib.COQ, "_CoqProject")).read().split()
    except OSError:
        listed = []
    return ["theories/MT/%s.vo" % n for n in names if ("theories/MT/%s.v" % n) in listed]


class _WorkCheck(MTCheck):
    extract_v = "Extract/ExtractWorkMT.v"
    model_ml = "workmt_model.ml"
    driver_in = "workmt_drv.ml.in"
    open_module = "Workmt_model"
    coq_targets = _coq_targets()
    trusted = [
        "log -> label abstraction (ocaml/workmt_drv.ml.in, unproved): owner = the thread that creates the pool; pool lock = the first "
        "x<n> lock taken inside the first submit / put; loop lock of a pool thread = the first unclassified x<n> lock it takes after its "
        "thread-start hook (its start-up self post); `Kk` is attributed to the loop whose lock the kicking thread released just before; "
        "`Tc n` of the owner is an iv_thread creation when it happens under the pool lock or right after `a tc` (harness-spawned "
        "threads are dropped); dropped segments: waits W/R (except the R that ends a Wb), Fw/Fr/K (descriptor layer), I/Li/T, `a y`, "
        "`a tc`, `a tr`, Ch and the helper-ending actions, U of loop locks, every other lock (iv_fd_epoll active-descriptor mutex): "
        "they carry no iv_work / iv_thread state",
        "iv_event taken at its interface (C08): FIFO coalescing list per loop, post under the loop's lock, kick iff the list became "
        "non-empty from another thread, pop before the handler, unregister = lock + unlink; the model decides which event an `L e<k>` "
        "concerns from the state of the acting thread; guards of `step` that encode other components: iv_main returns only with "
        "numobjs = 0 (MainEnd; nothing but D follows it), a wait with an armed timer has a deadline and a registered task prevents "
        "blocking (QUIESCENT), no undelivered post at QUIESCENT, the owner is blocked at QUIESCENT only with events registered on "
        "its loop (otherwise iv_main would have returned; pending user timers would be a deadline)",
        "monitors MT/WorkMTMon.v (extracted, run on every log, accepted or not): C12 = per item submitted -> work started -> work "
        "returned -> completed with the thread clauses, running pool work functions <= max_threads, nothing in flight at the end; "
        "C13 = hooks paired per thread, finish only with paired hooks, join after finish, MainEnd only with everything joined and "
        "completed, no QUIESCENT after put, D only after MainEnd; theorems C12_monitor_accepts / C13_hooks_paired: every sequence "
        "accepted by the model passes them",
        "one pool per scenario in the model (C12 adds an implementation-only search stage with two pools of one owner, see below), owner loop + pool threads + helper threads created by the owner; a running helper thread may submit to the pool as a FOREIGN "
        "submitter (iv_work_pool_submit_continuation by a thread that is neither the owner nor a thread of this pool -- what a worker of "
        "another pool of the same owner is for this pool); virtual time is not in the model: the "
        "idle timer may fire whenever the worker is on the idle list (covers every expiry time)",
        "baton scheduler mt.c / virtual kernel vk.c as for C08: sequentially consistent interleavings, switches at the yield points only",
    ]
    assumptions = [
        "API contract (scenario generator, and guards of `step`): work items are submitted only while not in flight; no submission after "
        "iv_work_pool_put and no put concurrent with a continuation submission; threads are created and pools put / plainly submitted to from "
        "the owner only; continuations are submitted by pool threads from inside a work function or by FOREIGN submitters (a running thread "
        "that is neither the owner nor a thread of the pool); handlers and work functions return; thread_start / thread_stop hooks are set",
        "API contract for FOREIGN submitters (guards of `step`: cs_submit_g, the destructor branch of st_evo): the pool has not been put "
        "when the foreign submission takes the pool lock (no put before or concurrent with it); a thread does not exit inside a submit "
        "call.  A put AFTER a foreign submission is covered: with work queued and no pool thread (started_threads = 0: a foreign "
        "submission whose thread_needed event the owner has not yet served) iv_work_pool_put starts a thread under the lock (fix D10, "
        "/repo commit eb5cf18; before it the pool was freed with the item queued: MT/WorkForeignPut.v, docs/D10_demo.c) -- the model's put "
        "critical section follows the code, scenario family gen_foreign_put",
        "partial: thread-creation failure and allocation failure are not modelled; fewer than 2^31 items queued at once; several pools on "
        "one loop are independent instances sharing only the owner's event list (not explored); no iv_quit; the harness does not "
        "distinguish a local (NULL pool) work function that runs inside the submit call from one that runs from the task right after it",
    ]

    mon_mode = "mon"

    def monitor_cmd(self, ctx):
        return [os.path.join(self.d, "mt_model_run"), self.mon_mode]

    def mix(self, ctx):
        raise NotImplementedError

    def cases(self, ctx):
        rng = vlib.rng_for(ctx.seed, self.pid)
        cases = []
        corpus = os.path.join(vlib.VERIF, "corpus", "%s.txt" % self.pid)
        if os.path.exists(corpus):
            cases += [l.rstrip("\n") for l in open(corpus) if l.strip()]
        cases += self.FIXED
        for fn, n in self.mix(ctx):
            for _ in range(n):
                cases.append(fn(rng))
        return cases

    def signature(self, case, why):
        return self.pid.lower() + ":" + ("crash" if "CRASH" in why or "sanitizer" in why or "crashed" in why else "monitor")

    def distribution(self, cases):
        d = {"cases": len(cases)}
        for k in ("wS", "wl", "wp0", "tc", "hx", "hi", "tr"):
            d["cases_with_" + k] = sum(1 for c in cases if (" " + k) in c or (":" + k) in c)
        for m in (1, 2, 3, 4):
            d["max_threads_%d" % m] = sum(1 for c in cases if "wc0=%d" % m in c)
        d["with_schedule"] = sum(1 for c in cases if ";Z" in c)
        d["cases_put_after_foreign_submission"] = sum(1 for c in cases if re.search(r";H0h\d+:[^;]*wS", c) and "wp0" in c)
        return d

    def _fails(self, ctx, case):
        st = self.correspond(ctx, [case])
        return bool(st["crashes"] or st["monfail"] or st["div"])

    def shrink(self, ctx, case):
        """drop the schedule tail, handler scripts and single actions while the failure persists"""
        tries = [0]

        def ok(c):
            if tries[0] >= 120:
                return False
            tries[0] += 1
            return self._fails(ctx, c)

        secs = [x for x in case.split(";") if x]
        # schedule: shorter and shorter prefixes
        for i, sec in enumerate(secs):
            if sec.startswith("Z"):
                z = sec[1:]
                while len(z) > 0:
                    cand = z[:len(z) // 2]
                    trial = secs[:i] + (["Z" + cand] if cand else []) + secs[i + 1:]
                    if ok(";".join(trial)):
                        z = cand
                        secs = trial
                        if not cand:
                            break
                    else:
                        break
                break
        i = 0
        while i < len(secs):
            if secs[i][0] == "H":
                cand = secs[:i] + secs[i + 1:]
                if ok(";".join(cand)):
                    secs = cand
                    continue
            i += 1
        for i in range(len(secs)):
            if secs[i][0] not in "LH" or ":" not in secs[i]:
                continue
            head, body = secs[i].split(":", 1)
            lists = [l.split() for l in body.split("/")]
            for li in range(len(lists)):
                ai = 0
                while ai < len(lists[li]):
                    if lists[li][ai].startswith("wc"):
                        ai += 1
                        continue
                    cand = [list(l) for l in lists]
                    del cand[li][ai]
                    txt = head + ":" + "/".join(" ".join(l) if l else "-" for l in cand)
                    if ok(";".join(secs[:i] + [txt] + secs[i + 1:])):
                        lists = cand
                        secs[i] = txt
                    else:
                        ai += 1
        return ";".join(secs)


class C12(_WorkCheck):
    pid = "C12"
    mon_mode = "mon12"
    rule = ("cases = seeded scenarios of one pool with max_threads 1-4 on the real iv_work.c: (a) bursts of 1-8 submissions from the "
            "owner, resubmission from completions, later submissions from owner timers at 0 / 1 ns / 5 / 10 / 10+1ns / 15 / 20 / 30 s "
            "(the workers' idle timers expire 10 s after they went idle: equal virtual deadlines race under the schedule); (b) chains of "
            "continuations submitted from work functions next to plain items, and continuations posting thread_needed while the owner "
            "fills the pool, with many long (yielding) work functions under long uniform schedules so that max_threads of them overlap; "
            "(c) idle-timer races (submissions and puts exactly at the "
            "idle expiry); (d) NULL-pool items mixed with pool items, submitted from set-up, local work functions, completions, timers; "
            "(e) FOREIGN submitters: 1-3 helper threads made by the owner (set-up, or an owner timer at 1 ns .. 5 s / 10 .. 30 s) each call "
            "iv_work_pool_submit_continuation for 1-2 fresh items, max_threads 1-3, when the pool has no thread yet / every thread is busy / "
            "threads are idle / threads have exited after the 10 s idle timeout, no put; (f) iv_work_pool_put right after a foreign "
            "submission to a pool without threads (helper scheduled first, then the put from the same set-up script / timer handler, before "
            "thread_needed is served): the put starts the thread (fix D10); "
            "schedules Z: random, bursty, ping-pong, owner first (threads still starting when more work arrives), workers first.  "
            "non-trivial = another thread ran while some thread held the pool lock, or >= 2 pool threads ran work functions, or an idle "
            "timer fired (exit or re-arm), or a continuation / self-kick / thread_needed post happened, or a foreign submission (a helper "
            "thread submitted to the pool) happened; distinct = distinct scenario text")
    FIXED = [
        "Bet;M40;Z0101210;L0:wc0=2 ws0.0 ws0.1 ws0.2;H0c2:wp0",
        "Bet;M40;Z0101210;L0:wc0=2 ws0.0 ws0.1;H0w0:wS0.0.2",
        "Bet;M40;L0:wl3 wl4 tc1;H0h1:y",
        "Bet;M60;L0:wc0=1 ws0.0 ws0.1 ws0.2 ws0.3 tr0+10000000000;H0t0:ws0.4 ws0.5",
        "Bet;M60;Z000000000011111111112222222222;L0:wc0=2 ws0.0 tr0+10000000000 tr1+10000000000;H0t0:ws0.1;H0t1:ws0.2",
        "Bet;M60;L0:wc0=1 tc1 y y;H0h1:wS0.0.3",
        "Bet;M60;Z0000001111111100000000222222;L0:wc0=1 ws0.0 tc1 tr0+1;H0t0:y y y;H0h1:y y y y y y y y wS0.0.1",
        "Bet;M80;L0:wc0=2 ws0.0 tr0+15000000000;H0t0:tc1;H0h1:y wS0.0.1 wS0.0.2 hx",
    ]

    # way (a) of the tie for the sequence-number arithmetic: the loop test / drained test / increments of iv_work.c are
    # re-translated from the current source on every run (gen/c2gallina.py -> Gen/LeafWork.v) and MT/WorkLink.v proves them
    # equal to what MT/WorkMT.v uses (theorem C12_seq_tests_are_the_code)
    coq_targets = _WorkCheck.coq_targets + [t for t in ["theories/Base/CSem.vo", "theories/Gen/LeafWork.vo", "theories/MT/WorkLink.vo",
                                                        "theories/MT/WorkLink2.vo"]
                                            if t[:-1] in _listed()]
    trusted = _WorkCheck.trusted + [
        "gen/c2gallina.py (class CTr: clang JSON AST -> Gen/LeafWork.v, rerun on every check) and the C integer semantics Base/CSem.v "
        "(LP64, uint32_t wraps modulo 2^32, (int32_t) reduces modulo 2^32 as gcc/clang do, None = undefined behaviour): the tests "
        "`(int32_t)(last_seq - pool->seq_head) > 0`, `pool->seq_head == pool->seq_tail` and the updates `seq_head++`, `seq_tail++`, "
        "`last_seq = pool->seq_tail` are translated and proved equal to more_work / =? / (_ + 1) mod 2^32 of MT/WorkMT.v "
        "(C12_seq_tests_are_the_code); which statement of the function is meant is selected by position (first while, third if, "
        "first write of the field)",
    ]

    def pre_proof(self, ctx):
        return leafgen.regenerate(["LeafWork.v"])

    def proofs(self, ctx):
        return leafgen.explain(
            LineCheck.proofs(self, ctx), "WorkLink", "C12_seq_tests_are_the_code (MT/WorkLink.v: leaf_more_work / leaf_drained / "
            "leaf_take_seq / leaf_submit_seq / leaf_last_seq / cs_loop_is_the_code)",
            "the sequence-number tests and updates of iv_work_thread_got_event / iv_work_submit_pool in the current src/iv_work.c "
            "(`while ((int32_t)(last_seq - pool->seq_head) > 0)`, `if (pool->seq_head == pool->seq_tail)`, `pool->seq_head++`, "
            "`pool->seq_tail++`, `last_seq = pool->seq_tail`), as translated by gen/c2gallina.py into Gen/LeafWork.v, are not the model's "
            "more_work / =? / (_ + 1) mod 2^32 any more")

    def mix(self, ctx):
        q = ctx.tier == "quick"
        return [(gen_burst, 230 if q else 12000), (gen_cont, 110 if q else 6000), (gen_needed, 120 if q else 6000),
                (gen_idle_race, 140 if q else 8000), (gen_local, 80 if q else 4000), (gen_put_at, 40 if q else 2000),
                (gen_foreign, 100 if q else 5000), (gen_foreign_put, 30 if q else 1500), (gen_preempt, 260 if q else 8000)]

    def nontrivial(self, case, log):
        f = log_features(log)
        return bool(f["switch_in_cs"] or f["workers"] >= 2 or f["idle_exit"] or f["cont"] or f["self_kick"] or f["needed"]
                    or f["foreign"])

    # ---- search stage beyond the model: two pools of one owner (implementation only, judged by two_pool_log_check) ----
    def cases(self, ctx):
        cases = _WorkCheck.cases(self, ctx)
        rng = vlib.rng_for(ctx.seed, "C12-two-pools")
        self.n_two = 60 if ctx.tier == "quick" else 1500
        cases += ["2POOL Bet;M60;Z0101210;L0:wc0=2 wc1=2 ws0.2;H0w2:wS0.1.3",
                  "2POOL Bet;M60;L0:wc0=1 wc1=1 ws0.2 tr0+25000000000;H0t0:ws0.5;H0w5:y wS0.1.3 y"]
        cases += [gen_two_pools(rng) for _ in range(self.n_two)]
        return cases

    def correspond(self, ctx, cases):
        import runner
        one = [i for i, c in enumerate(cases) if not c.startswith("2POOL ")]
        two = [i for i, c in enumerate(cases) if c.startswith("2POOL ")]
        n = len(cases)
        st = {"n": n, "div": [], "crashes": [], "monfail": [], "nontrivial": 0, "mres": [("", None)] * n,
              "ires": [("", None)] * n, "mon": ["OK"] * n}
        if one:
            s0 = _WorkCheck.correspond(self, ctx, [cases[i] for i in one])
            for key in ("div", "crashes", "monfail"):
                st[key] += [(one[j], why) for j, why in s0[key]]
            for j, i in enumerate(one):
                st["mres"][i] = s0["mres"][j]
                st["ires"][i] = s0["ires"][j]
                if s0["mon"] is not None:
                    st["mon"][i] = s0["mon"][j]
            st["nontrivial"] += s0["nontrivial"]
        if two:
            ires = runner.run_cases_sharded(self.impl_cmd(ctx), [cases[i][6:] for i in two], timeout=self.timeout(ctx),
                                            env=dict(runner.ASAN_ENV))
            for i, (io, ierr) in zip(two, ires):
                st["ires"][i] = (io, ierr)
                st["mres"][i] = ("(two pools: outside the one-pool model; the implementation log is judged by two_pool_log_check)", None)
                if ierr is not None:
                    st["crashes"].append((i, ierr))
                    continue
                why = two_pool_log_check(cases[i], io)
                if why:
                    st["monfail"].append((i, "two-pool search stage: " + why))
                elif io and " wS" in io:
                    st["nontrivial"] += 1
        for key in ("div", "crashes", "monfail"):
            st[key].sort(key=lambda x: x[0])
        # measured: one-pool logs in which a helper thread submitted to the pool (foreign submitter), and how it was served
        fs = {"logs_with_foreign_submission": 0, "foreign_thread_needed_posts": 0, "foreign_kicks_of_idle_thread": 0,
              "foreign_logs_accepted_by_model": 0}
        for i in one:
            io = st["ires"][i][0]
            if not io or " wS" not in io:
                continue
            f = log_features(io)
            if f["foreign"]:
                fs["logs_with_foreign_submission"] += 1
                fs["foreign_thread_needed_posts"] += int(f["foreign_needed"])
                fs["foreign_kicks_of_idle_thread"] += int(f["foreign_kick"])
                fs["foreign_logs_accepted_by_model"] += int(str(st["mon"][i]).startswith("OK"))
        if len(cases) > 1 or not hasattr(self, "foreign_stats"):
            self.foreign_stats = fs
        return st

    def distribution(self, cases):
        d = _WorkCheck.distribution(self, [c for c in cases if not c.startswith("2POOL ")])
        d["cases_with_foreign_submitter_script"] = sum(1 for c in cases if not c.startswith("2POOL ") and re.search(r";H0h\d+:[^;]*wS", c))
        d.update(getattr(self, "foreign_stats", {}))
        d["two_pool_search_cases_implementation_only"] = sum(1 for c in cases if c.startswith("2POOL "))
        return d


class C13(_WorkCheck):
    pid = "C13"
    mon_mode = "mon13"
    rule = ("cases = seeded scenarios with iv_work_pool_put at a chosen point: first thing after create, between set-up submissions, "
            "from a completion (first / second run of a resubmitted item), from a local work function, from owner timers at 0 / 5 / 10 / "
            "10+1ns / 11 / 20 / 30 s (around the workers' idle expiry), with submissions before and after, max_threads 1-4; helper "
            "threads made by iv_thread_create from set-up, completions and timers ending by return / pthread_exit, with iv_init and "
            "with or without iv_deinit; the harness overwrites the user's struct iv_work_pool right after put returns; schedules as "
            "C12, owner-first ones leave threads starting when the put arrives.  non-trivial = a pool thread ran its stop hook after the "
            "put, or the put found a thread that had not yet run its start hook, or a helper ended by pthread_exit / with its own loop, or the "
            "put itself started a thread (work queued by a foreign submitter -- a helper thread calling iv_work_pool_submit_continuation -- "
            "while the pool had no thread: family gen_foreign_put, the helper is scheduled first and the put follows from the same set-up "
            "script / timer handler before thread_needed is served; fix D10); distinct = distinct scenario text")
    FIXED = [
        "Bet;M40;L0:wc0=1 wp0",
        "Bet;M40;Z00000000000000000000000011;L0:wc0=1 ws0.0 wp0",
        "Bet;M40;L0:tc1 tc2 tc3 tc4;H0h1:hx;H0h2:hi hx;H0h3:hi hd;H0h4:hi y hd hx",
        "Bet;M40;Z0102010201;L0:wc0=2 ws0.0 tc1;H0h1:hi;H0c0:wp0",
        "Bet;M60;L0:wc0=2 ws0.0 ws0.1 tr0+10000000000;H0t0:wp0",
        # fix D10: put right after a foreign submission to a pool without threads (the put starts the thread)
        "Bet;M60;Z111111111111111111111111;L0:wc0=1 tc1 y y wp0;H0h1:wS0.0.3",
        "Bet;M60;Z1111111111111111111111111111;L0:wc0=2 tc1 y wp0;H0h1:wS0.0.3 wS0.0.4",
        "Bet;M80;Z%s;L0:wc0=2 ws0.0 tr0+15000000000;H0t0:tc1 y y y wp0;H0h1:wS0.0.1 wS0.0.2 hx" % ("2" * 300),
    ]

    # way (a) of the tie for the guards C13 rests on (release test of iv_work_event, the death of a worker and its
    # notification): Gen/LeafWork.v is re-translated on every run, MT/WorkLink2.v links it to the critical sections of the model
    coq_targets = _WorkCheck.coq_targets + [t for t in ["theories/Base/CSem.vo", "theories/Gen/LeafWork.vo", "theories/MT/WorkLink2.vo"]
                                            if t[:-1] in _listed()]

    def pre_proof(self, ctx):
        return leafgen.regenerate(["LeafWork.v"])

    def proofs(self, ctx):
        return leafgen.explain(
            LineCheck.proofs(self, ctx), "WorkLink2", "C13_release_test_is_the_code / C13_worker_death_is_the_code (MT/WorkLink2.v)",
            "the release test of iv_work_event (`!pool->started_threads && iv_list_empty(&pool->work_done)`) or the bookkeeping of "
            "__iv_work_thread_die in the current src/iv_work.c, as translated by gen/c2gallina.py into Gen/LeafWork.v, is not what "
            "cs_free_test / cs_die of MT/WorkMT.v do any more")

    def mix(self, ctx):
        q = ctx.tier == "quick"

        def burst_put(rng):
            return gen_burst(rng, put=rng.choice(["any", "any", "first"]))

        def put_sys(rng):
            return gen_put_at(rng, place=PUT_PLACES[rng.randrange(len(PUT_PLACES))])

        return [(put_sys, 330 if q else 15000), (gen_helpers, 130 if q else 6000), (burst_put, 130 if q else 6000),
                (gen_cont, 60 if q else 3000), (gen_idle_race, 50 if q else 2000), (gen_foreign_put, 60 if q else 3000),
                (gen_preempt, 120 if q else 4000)]

    def nontrivial(self, case, log):
        f = log_features(log)
        return bool(f["stop_after_put"] or f["put_starting"] or f["helper_te"] or f["helper_init"] or f["put_starts_thread"])
