"""C12 / C13 -- iv_work (items run once in a worker, complete once in the owner, all finish) and pool shutdown /
iv_thread lifetime.  Proofs in MT/WorkMT*.v; tie = acceptance of the log of the real iv_work.c + iv_thread_posix.c
(real threads, baton scheduler, virtual time) by the extracted transition system MT/WorkMT.v, plus the extracted
monitors on the same log."""
import os
import re

import vlib
from mtcheck import MTCheck

NITEM = 8
S = 1000000000


class Scen:
    """one scenario under construction: set-up actions of loop 0, handler scripts, schedule"""

    def __init__(self, rng, maxthr):
        self.rng = rng
        self.maxthr = maxthr
        self.setup = ["wc0=%d" % maxthr]
        self.scripts = {}           # key ("w", i) -> list of action lists (per invocation)
        self.free_items = list(range(NITEM))
        rng.shuffle(self.free_items)
        self.free_timers = list(range(8))
        self.free_helpers = list(range(1, 8))
        self.sched = ""
        self.m = 120

    def item(self):
        return self.free_items.pop() if self.free_items else None

    def add(self, key, acts, invocation=0):
        ls = self.scripts.setdefault(key, [])
        while len(ls) <= invocation:
            ls.append([])
        ls[invocation] += acts

    def timer(self, delay_ns, acts, where=None):
        """register a timer of loop 0 (from the set-up or from script `where`) whose callback runs acts"""
        if not self.free_timers:
            return False
        j = self.free_timers.pop()
        reg = "tr%d+%d" % (j, delay_ns)
        if where is None:
            self.setup.append(reg)
        else:
            self.add(where, [reg])
        self.add(("t", j), acts)
        return True

    def helper(self, ending, where=None):
        if not self.free_helpers:
            return
        n = self.free_helpers.pop()
        if where is None:
            self.setup.append("tc%d" % n)
        else:
            self.add(where, ["tc%d" % n])
        self.add(("h", n), ending.split())

    def text(self):
        secs = ["Bet", "M%d" % self.m]
        if self.sched:
            secs.append("Z" + self.sched)
        secs.append("L0:" + " ".join(self.setup))
        for (k, j), ls in sorted(self.scripts.items()):
            if not any(ls):
                continue
            if k in "wc" and ls[-1]:
                ls = ls + [[]]      # the last list is repeated for later invocations: end with an empty one
            secs.append("H0%s%d:%s" % (k, j, "/".join(" ".join(l) if l else "-" for l in ls)))
        return ";".join(secs)


HELPER_ENDINGS = ["", "y", "hx", "y hx", "hi", "hi y", "hi hd", "hi y hd", "hi hx", "hi y hx", "hi hd hx", "hi hd y hx", "y y hi y hd y"]


def schedule(rng, nthr, n, style):
    """schedule string: which thread runs at each successive yield point"""
    ids = "0123456789abcdef"[:nthr + 1]
    out = []
    if style == "owner_first":
        # the submitter runs ahead, the workers start late (threads still starting when more work / put arrives)
        out.append("0" * rng.randint(5, 40))
    elif style == "workers_first":
        out.append("".join(rng.choice(ids[1:]) for _ in range(rng.randint(5, 40))))
    while sum(len(x) for x in out) < n:
        r = rng.random()
        if style == "pingpong" or r < 0.25:
            a, b = rng.choice(ids), rng.choice(ids)
            out.append((a + b) * rng.randint(1, 6))
        elif r < 0.6:
            out.append(rng.choice(ids) * rng.randint(1, 9))
        elif r < 0.8:
            out.append("".join(rng.choice(ids[1:]) for _ in range(rng.randint(1, 8))))
        else:
            out.append("".join(rng.choice(ids) for _ in range(rng.randint(1, 8))))
    return "".join(out)[:n]


STYLES = ["random", "random", "owner_first", "workers_first", "pingpong"]

DELAYS = [0, 1, 5 * S, 10 * S, 10 * S, 10 * S, 10 * S + 1, 15 * S, 20 * S, 20 * S, 25 * S, 30 * S]


def place_put(sc, rng, where_items, allow_setup=True, allow_timer=True):
    """put the pool somewhere: set-up (at the current position), a completion, a timer callback, a local work
    function.  Returns the name of the place."""
    opts = []
    if allow_setup:
        opts += ["setup"] * 2
    if where_items:
        opts += ["compl"] * 3
    if allow_timer:
        opts += ["timer"] * 3
    if not opts:
        return "none"
    o = rng.choice(opts)
    if o == "setup":
        sc.setup.append("wp0")
    elif o == "compl":
        i = rng.choice(where_items)
        sc.add(("c", i), ["wp0"], rng.choice([0, 0, 1]) if False else 0)
    else:
        if not sc.timer(rng.choice(DELAYS), ["wp0"]):
            sc.setup.append("wp0")
            return "setup"
    return o


def gen_burst(rng, put=None):
    """bursts of submissions from the owner, resubmission from completions, later submissions from timers"""
    m = rng.choice([1, 1, 2, 2, 3, 4])
    sc = Scen(rng, m)
    k = rng.choice([1, 2, 3, 4, 5, 6, 8]) if m < 3 else rng.choice([3, 4, 6, 8])
    used = []
    put = put if put is not None else rng.choice(["none", "none", "any", "any", "any", "first"])
    if put == "first":
        sc.setup.append("wp0")
    cut = rng.randint(0, k) if put == "any" and rng.random() < 0.35 else None
    for n in range(k):
        if cut is not None and n == cut:
            sc.setup.append("wp0")          # later submissions are skipped by the harness guard (pool no longer live)
            put = "done"
        i = sc.item()
        if i is None:
            break
        used.append(i)
        sc.setup.append("ws0.%d" % i)
        r = rng.random()
        if r < 0.25:
            sc.add(("w", i), ["y"] * rng.randint(1, 3))
        if rng.random() < 0.3:
            # the completion submits the same item again (once or twice)
            for inv in range(rng.randint(1, 2)):
                sc.add(("c", i), ["ws0.%d" % i], inv)
        elif rng.random() < 0.2:
            j = sc.item()
            if j is not None:
                sc.add(("c", i), ["ws0.%d" % j])
                used.append(j)
    # submissions after the pool went idle / after the idle timeout
    for _ in range(rng.choice([0, 0, 1, 1, 2, 3])):
        j = sc.item()
        if j is None:
            break
        if sc.timer(rng.choice(DELAYS), ["ws0.%d" % j]):
            used.append(j)
    if put == "any":
        place_put(sc, rng, used)
    for _ in range(rng.choice([0, 0, 0, 1, 2])):
        sc.helper(rng.choice(HELPER_ENDINGS), rng.choice([None, None, ("c", rng.choice(used))]) if used else None)
    sc.sched = schedule(rng, m + 2, rng.choice([0, 30, 80, 200, 400]), rng.choice(STYLES))
    return sc.text()


def gen_cont(rng):
    """continuations submitted from work functions (one chain) next to plain items"""
    m = rng.choice([1, 2, 2, 3, 4])
    sc = Scen(rng, m)
    chain = [sc.item() for _ in range(rng.randint(2, 4))]
    plain = [sc.item() for _ in range(rng.randint(0, 3))]
    order = [chain[0]] + plain
    rng.shuffle(order)
    for i in order:
        sc.setup.append("ws0.%d" % i)
    for a, b in zip(chain, chain[1:]):
        acts = ["wS0.0.%d" % b]
        if rng.random() < 0.4:
            acts = ["y"] + acts
        if rng.random() < 0.4:
            acts = acts + ["y"]
        sc.add(("w", a), acts)
    for i in plain:
        if rng.random() < 0.3:
            sc.add(("w", i), ["y"])
    r = rng.random()
    if r < 0.35:
        sc.add(("c", chain[-1]), ["wp0"])           # every continuation has been submitted by then
    elif r < 0.6:
        sc.timer(rng.choice([10 * S, 15 * S, 20 * S, 30 * S]), ["wp0"])   # time passes only when nobody runs
    if rng.random() < 0.3:
        sc.helper(rng.choice(HELPER_ENDINGS))
    sc.sched = schedule(rng, m + 1, rng.choice([0, 40, 120, 300]), rng.choice(STYLES))
    return sc.text()


def gen_idle_race(rng):
    """kick vs idle timer: the pool goes idle at t0, its idle timers expire at t0 + 10 s; a timer of the owner
    expiring at the same virtual instant submits / puts"""
    m = rng.choice([1, 1, 2, 3])
    sc = Scen(rng, m)
    first = [sc.item() for _ in range(rng.randint(1, min(4, m + 1)))]
    for i in first:
        sc.setup.append("ws0.%d" % i)
    later = []
    for d in rng.sample([10 * S, 10 * S, 10 * S, 20 * S, 20 * S, 5 * S, 10 * S + 1, 15 * S, 30 * S], rng.randint(1, 3)):
        acts = []
        for _ in range(rng.randint(1, 2)):
            j = sc.item()
            if j is not None:
                acts.append("ws0.%d" % j)
                later.append(j)
        if rng.random() < 0.25:
            acts.append("wp0")
        if acts:
            sc.timer(d, acts)
    if rng.random() < 0.3:
        place_put(sc, rng, first + later, allow_setup=False)
    # the idle workers and the owner become runnable together after the clock jump: let the schedule decide
    sc.sched = schedule(rng, m + 1, rng.choice([60, 150, 300, 500]), rng.choice(["random", "pingpong", "workers_first", "random"]))
    return sc.text()


def gen_local(rng):
    """NULL pool: work and completion run from a task of the submitting thread; mixed with a real pool"""
    m = rng.choice([1, 2, 3])
    sc = Scen(rng, m)
    with_pool = rng.random() < 0.7
    if not with_pool:
        sc.setup = []
    loc = []
    for _ in range(rng.randint(1, 4)):
        i = sc.item()
        loc.append(i)
        sc.setup.append("wl%d" % i)
        if with_pool and rng.random() < 0.4:
            sc.setup.append("ws0.%d" % sc.item())
    for i in loc:
        r = rng.random()
        if r < 0.25:
            j = sc.item()
            if j is not None:
                sc.add((rng.choice("wc"), i), ["wl%d" % j])         # local submission from a local work function / completion
        elif r < 0.5 and with_pool:
            j = sc.item()
            if j is not None:
                sc.add((rng.choice("wc"), i), ["ws0.%d" % j])
                if rng.random() < 0.3:
                    jj = sc.item()
                    if jj is not None:
                        sc.add(("c", j), ["wl%d" % jj])
        elif r < 0.6:
            sc.add(("c", i), ["wl%d" % i])                          # the completion submits the item again
    if with_pool and rng.random() < 0.5:
        r = rng.random()
        if r < 0.4:
            sc.add((rng.choice("wc"), rng.choice(loc)), ["wp0"])
        elif r < 0.7:
            sc.setup.append("wp0")
        else:
            sc.timer(rng.choice(DELAYS), ["wp0"])
    if rng.random() < 0.3:
        j = sc.item()
        if j is not None:
            sc.timer(rng.choice([0, 1, 10 * S]), ["wl%d" % j])
    if rng.random() < 0.3:
        sc.helper(rng.choice(HELPER_ENDINGS), rng.choice([None, ("w", rng.choice(loc)), ("c", rng.choice(loc))]))
    sc.sched = schedule(rng, m + 1, rng.choice([0, 40, 120]), rng.choice(STYLES))
    return sc.text()


PUT_PLACES = ["first", "setup", "compl", "compl2", "timer0", "timer5", "timer10", "timer10b", "timer11", "timer20", "timer30", "work_local"]


def gen_put_at(rng, place=None, m=None, style=None):
    """pool shutdown at a chosen point relative to submissions, running work, idle / starting workers, idle timeouts"""
    m = m or rng.choice([1, 2, 3, 4])
    place = place or rng.choice(PUT_PLACES)
    sc = Scen(rng, m)
    k = rng.randint(1, 5)
    its = [sc.item() for _ in range(k)]
    pos = rng.randint(0, k)
    if place == "first":
        sc.setup.append("wp0")
    for n, i in enumerate(its):
        if place == "setup" and n == pos:
            sc.setup.append("wp0")
        sc.setup.append("ws0.%d" % i)
        if rng.random() < 0.3:
            sc.add(("w", i), ["y"] * rng.randint(1, 2))
        if rng.random() < 0.25:
            sc.add(("c", i), ["ws0.%d" % i])
    if place == "setup" and pos == k:
        sc.setup.append("wp0")
    if place == "compl":
        sc.add(("c", rng.choice(its)), ["wp0"])
    elif place == "compl2":
        i = rng.choice(its)
        sc.scripts[("c", i)] = [["ws0.%d" % i], ["wp0"]]             # put from the second completion of a resubmitted item
    elif place.startswith("timer"):
        d = {"timer0": 0, "timer5": 5 * S, "timer10": 10 * S, "timer10b": 10 * S + 1, "timer11": 11 * S, "timer20": 20 * S,
             "timer30": 30 * S}[place]
        acts = ["wp0"]
        if rng.random() < 0.4:
            j = sc.item()
            if j is not None:
                acts = ["ws0.%d" % j, "wp0"] if rng.random() < 0.7 else ["wp0", "ws0.%d" % j]
        sc.timer(d, acts)
        if rng.random() < 0.4:
            j = sc.item()
            if j is not None:
                sc.timer(rng.choice([5 * S, 10 * S, 20 * S]), ["ws0.%d" % j])
    elif place == "work_local":
        j = sc.item()
        if j is not None:
            sc.setup.insert(rng.randint(1, len(sc.setup)), "wl%d" % j)
            sc.add((rng.choice("wc"), j), ["wp0"])
    for _ in range(rng.choice([0, 0, 1, 2])):
        sc.helper(rng.choice(HELPER_ENDINGS), rng.choice([None, ("c", rng.choice(its))]))
    style = style or rng.choice(STYLES)
    sc.sched = schedule(rng, m + 2, rng.choice([0, 40, 100, 250, 500]), style)
    return sc.text()


def gen_helpers(rng):
    """threads made by iv_thread_create, every ending, created from the set-up, completions and timers"""
    sc = Scen(rng, rng.choice([1, 2]))
    with_pool = rng.random() < 0.5
    its = []
    if not with_pool:
        sc.setup = []
    else:
        for _ in range(rng.randint(1, 3)):
            i = sc.item()
            its.append(i)
            sc.setup.append("ws0.%d" % i)
    nh = rng.randint(1, 5)
    for _ in range(nh):
        r = rng.random()
        end = rng.choice(HELPER_ENDINGS)
        if r < 0.5 or not (its or sc.free_timers):
            sc.helper(end)
        elif r < 0.75 and its:
            sc.helper(end, ("c", rng.choice(its)))
        else:
            if sc.free_timers and sc.free_helpers:
                n = sc.free_helpers[-1]
                if sc.timer(rng.choice([0, 1, 10 * S]), []):
                    j = max(k[1] for k in sc.scripts if k[0] == "t")
                    sc.helper(end, ("t", [k for k in sc.scripts if k[0] == "t"][-1][1]))
    if with_pool and rng.random() < 0.6:
        place_put(sc, rng, its)
    sc.sched = schedule(rng, nh + 3, rng.choice([0, 30, 100, 200]), rng.choice(STYLES))
    return sc.text()
