"""Running line-oriented executables (C harness, extracted model) over many cases,
sharded over the cores, robust against crashes of the C side (a sanitizer abort
is an outcome, not an infrastructure failure)."""
import os
import subprocess
import tempfile
from concurrent.futures import ThreadPoolExecutor

from vlib import NPROC

ASAN_ENV = {
    "ASAN_OPTIONS": "detect_leaks=1:abort_on_error=0:exitcode=99:allocator_may_return_null=1:detect_stack_use_after_return=0",
    "UBSAN_OPTIONS": "print_stacktrace=1:halt_on_error=1:exitcode=98",
    "LSAN_OPTIONS": "exitcode=97",
}


def _run_lines(cmd, lines, timeout, env):
    """Feed lines on stdin; the program prints one complete stdout line per input
    line (flushed per line).  Returns (complete_lines, stderr_text, rc)."""
    e = dict(os.environ)
    e.update(env or {})
    try:
        p = subprocess.run(cmd, input="".join(l + "\n" for l in lines), stdout=subprocess.PIPE,
                           stderr=subprocess.PIPE, text=True, errors="replace", timeout=timeout, env=e)
        out, err, rc = p.stdout, p.stderr, p.returncode
    except subprocess.TimeoutExpired as ex:
        out = ex.stdout or ""
        if isinstance(out, bytes):
            out = out.decode(errors="replace")
        err, rc = "[timeout after %ss]" % timeout, 124
    return out.split("\n")[:-1], err, rc


def run_cases(cmd, lines, timeout=600, env=None, max_crashes=8):
    """One process per batch; when the process dies before answering every
    line, the first unanswered line is marked as crashed (stderr attached) and
    the batch is resumed after it.  Returns list of (output_line | None, crash_text | None)."""
    res = []
    i = 0
    crashes = 0
    while i < len(lines):
        outs, err, rc = _run_lines(cmd, lines[i:], timeout, env)
        want = len(lines) - i
        if len(outs) >= want:
            res.extend((o, None) for o in outs[:want - 1])
            res.append((outs[want - 1], None if rc == 0 else "exit rc=%d\n%s" % (rc, err[-6000:])))
            break
        res.extend((o, None) for o in outs)
        res.append((None, "rc=%d\n%s" % (rc, err[-6000:])))
        i += len(outs) + 1
        crashes += 1
        if crashes >= max_crashes:
            res.extend((None, "not run (too many crashes)") for _ in range(len(lines) - i))
            break
    return res


def run_cases_sharded(cmd, lines, timeout=600, env=None, nshards=None):
    n = min(nshards or NPROC, max(1, len(lines)))
    shards = [lines[k::n] for k in range(n)]
    with ThreadPoolExecutor(max_workers=n) as ex:
        parts = list(ex.map(lambda sh_: run_cases(cmd, sh_, timeout, env), shards))
    out = [None] * len(lines)
    for k in range(n):
        for j, r in enumerate(parts[k]):
            out[k + j * n] = r
    return out


def run_monitor(cmd_prefix, cases, impl_lines, workdir, nshards=None):
    """cmd_prefix + [cases_file, impl_file] prints one verdict line per case."""
    n = min(nshards or NPROC, max(1, len(cases)))
    os.makedirs(workdir, exist_ok=True)

    def one(k):
        cs = cases[k::n]
        il = impl_lines[k::n]
        cf = os.path.join(workdir, "mon_cases_%d.txt" % k)
        jf = os.path.join(workdir, "mon_impl_%d.txt" % k)
        with open(cf, "w") as f:
            f.write("".join(c + "\n" for c in cs))
        with open(jf, "w") as f:
            f.write("".join((x if x is not None else "") + "\n" for x in il))
        # the extracted monitors / the OCaml trace parser recurse over the trace: long traces need a deep stack
        p = subprocess.run(["/bin/sh", "-c", 'ulimit -s unlimited 2>/dev/null || ulimit -s 1048576 2>/dev/null; exec "$@"', "sh"]
                           + cmd_prefix + [cf, jf], stdout=subprocess.PIPE, stderr=subprocess.PIPE, text=True, errors="replace")
        outs = p.stdout.split("\n")
        if outs and outs[-1] == "":
            outs = outs[:-1]
        while len(outs) < len(cs):
            outs.append("FAIL monitor produced no verdict (%s)" % p.stderr[-200:].replace("\n", " "))
        os.unlink(cf)
        os.unlink(jf)
        return outs

    with ThreadPoolExecutor(max_workers=n) as ex:
        parts = list(ex.map(one, range(n)))
    out = [None] * len(cases)
    for k in range(n):
        for j, r in enumerate(parts[k]):
            out[k + j * n] = r
    return out
