"""Scenario generator for the core-loop correspondence (scenario language of
harness/ivsim.c).  All randomness comes from the rng handed in.

Profiles bias the generator towards the case splits of the proofs:
  fd      handler toggling, unregister-while-queued, struct reuse, HUP/ERR-only conditions
  timer   past/zero/equal/far expiries, re-arming from handlers, standing deadline + fd wake-ups
          (kernel-timer optimisation engages after 5 identical deadlines), clock advances
  task    self/other/fresh/already-run registrations from every handler kind
  event   posts from every handler kind, unregister of queued events, raw events
  quit    iv_quit anywhere, failing registrations
  fault   EINTR at the k-th wait, missing system calls (from the first call or, for eventfd2 / eventfd,
          from the k-th creation on: efdok=<k>)
  mixed   everything
"""

BACKENDS = ["et", "ep", "pp", "po"]
HEX = "0123456789abcdef"


class Gen:
    def __init__(self, rng, profile="mixed"):
        self.r = rng
        self.p = profile
        r = rng
        heavy = lambda k: profile in (k, "mixed")
        self.nf = r.randint(2, 4) if heavy("fd") or profile in ("fault", "quit") else r.randint(0, 2)
        self.nt = r.randint(1, 4) if heavy("timer") else r.randint(0, 2)
        self.nk = r.randint(1, 4) if heavy("task") else r.randint(0, 2)
        self.ne = r.randint(1, 3) if heavy("event") else r.randint(0, 1)
        self.nr = r.randint(1, 2) if heavy("event") else r.randint(0, 1)
        self.nh = r.randint(2, 5)       # descriptor handler ids in use

    # ---- pieces ----
    def conds(self):
        r = self.r
        return r.choice(["i", "o", "io", "h", "e", "ih", "", "", "i", "o", "he", "ioh"])

    def rel(self):
        r = self.r
        return r.choice([0, 0, 1, 1000, 1000000, 1000000, 5000000, 5000000, 5000001, 999999, 1500000,
                         20000000, 1000000000, 3600000000000, 86400000000000, 90000000000000])

    def action(self, ctx):
        """one random action; ctx = kind of handler it will run in ('S' for set-up, 'W' for wait-time)"""
        r, p = self.r, self.p
        pool = []
        if self.nf:
            f = r.randrange(self.nf)
            w = 6 if p in ("fd", "mixed") else 2
            pool += [("fr%d" % f, w), ("fu%d" % f, w), ("ft%d" % f, 1 if p != "quit" else 4),
                     ("fh%d%s%s" % (f, r.choice("ioe"), r.choice(HEX[:self.nh] + "--")), w + 2),
                     ("fx%d" % f, w // 2 + 1), ("fc%d=%d" % (f, r.randrange(6)), 1),
                     ("ks%d=%s" % (f, self.conds()), w), ("kc%d" % f, 1 if p != "quit" else 3), ("ko%d" % f, 1)]
        if self.nt:
            t = r.randrange(self.nt)
            w = 6 if p in ("timer", "mixed") else 2
            pool += [("tr%d+%d" % (t, self.rel()), w + 2), ("tu%d" % t, w), ("tx%d" % t, 1),
                     ("tr%d@%d" % (t, r.choice([0, 1, 1000000000, 1005000000, 999999999, 2000000000])), 2)]
            if p in ("timer", "mixed"):
                pool += [("ca%d" % r.choice([1, 999999, 1000000, 5000000, 10000000]), 3), ("ci", 2), ("cv", 1)]
        if self.nk:
            k = r.randrange(self.nk)
            w = 7 if p in ("task", "mixed") else 2
            pool += [("kr%d" % k, w + 2), ("ku%d" % k, w), ("kx%d" % k, w // 2)]
        if self.ne:
            e = r.randrange(self.ne)
            w = 6 if p in ("event", "mixed") else 2
            pool += [("er%d" % e, w), ("eu%d" % e, w), ("ep%d" % e, w + 3), ("ex%d" % e, 1)]
        if self.nr:
            j = r.randrange(self.nr)
            w = 5 if p in ("event", "mixed") else 1
            pool += [("rr%d" % j, w), ("ru%d" % j, w), ("rp%d" % j, w + 2), ("rx%d" % j, 1)]
        pool += [("q", 3 if p == "quit" else 1)]
        if ctx == "W":
            pool = [(a, w) for a, w in pool if a[:2] in ("ks", "rp", "ca", "ko")] or [("ca1000", 1)]
        tot = sum(w for _, w in pool)
        x = r.uniform(0, tot)
        for a, w in pool:
            x -= w
            if x <= 0:
                return a
        return pool[-1][0]

    def script(self, ctx, maxlists=3, maxacts=4):
        r = self.r
        lists = []
        for _ in range(r.randint(1, maxlists)):
            n = r.choice([0, 1, 1, 2, 2, 3, maxacts])
            acts = [self.action(ctx) for _ in range(n)]
            lists.append(" ".join(acts) if acts else "-")
        return "/".join(lists)

    def scenario(self, backend=None, faults=None):
        r = self.r
        secs = ["B" + (backend or r.choice(BACKENDS))]
        if faults:
            secs.append("X" + ",".join(faults))
        secs.append("M%d" % r.choice([8, 12, 16, 24]))
        # set-up: give descriptors handlers, register most things, make several due at once
        setup = []
        for f in range(self.nf):
            for b in "ioe":
                if r.random() < 0.6:
                    setup.append("fh%d%s%s" % (f, b, r.choice(HEX[:self.nh])))
            if r.random() < 0.85:
                setup.append("fr%d" % f if r.random() < 0.8 else "ft%d" % f)
            if r.random() < 0.6:
                setup.append("ks%d=%s" % (f, self.conds()))
        base = self.rel()
        for t in range(self.nt):
            if r.random() < 0.8:
                setup.append("tr%d+%d" % (t, base if r.random() < 0.5 else self.rel()))
        for k in range(self.nk):
            if r.random() < 0.7:
                setup.append("kr%d" % k)
        for e in range(self.ne):
            if r.random() < 0.85:
                setup.append("er%d" % e)
                if r.random() < 0.6:
                    setup.append("ep%d" % e)
        for j in range(self.nr):
            if r.random() < 0.8:
                setup.append("rr%d" % j)
                if r.random() < 0.6:
                    setup.append("rp%d" % j)
        for _ in range(r.randint(0, 3)):
            setup.append(self.action("S"))
        r.shuffle(setup) if r.random() < 0.3 else None
        secs.append("S " + " ".join(setup[:24]))
        for h in range(self.nh):
            secs.append("Hf%s:%s" % (HEX[h], self.script("f")))
        for t in range(self.nt):
            secs.append("Ht%d:%s" % (t, self.script("t")))
        for k in range(self.nk):
            secs.append("Hk%d:%s" % (k, self.script("k")))
        for e in range(self.ne):
            secs.append("He%d:%s" % (e, self.script("e")))
        for j in range(self.nr):
            secs.append("Hr%d:%s" % (j, self.script("r")))
        for k in range(1, 10):
            if r.random() < 0.35:
                secs.append("W%d:%s" % (k, " ".join(self.action("W") for _ in range(r.randint(1, 3)))))
            if r.random() < 0.2:
                secs.append("O%d:%d" % (k, r.randint(1, 4)))
        return ";".join(secs)


FAULT_SETS = [["nopwait2"], ["permpwait2"], ["notimerfd"], ["noppoll"], ["noeventfd2"], ["noeventfd"],
              ["nocreate1"], ["eintr@1"], ["eintr@2"], ["eintr@3", "eintr@4"], ["eintr@5"], ["ctleintr@2"],
              ["ctleintr@5"], ["nopwait2", "notimerfd"], ["noeventfd", "eintr@2"], ["emfile"],
              ["noeventfd", "efdok=1"], ["noeventfd", "efdok=2"], ["noeventfd2", "efdok=1"], ["noeventfd", "efdok=3"],
              ["noeventfd2", "noeventfd", "efdok=1"], ["noeventfd", "efdok=1", "eintr@2"], ["noeventfd2", "efdok=2"]]


def standing_deadline(rng, backend):
    """a timer far in the future + a descriptor that wakes the loop every iteration, so that the same
    deadline is seen >= 5 times and the kernel-timer path engages; then an earlier timer / firing."""
    r = rng
    d = r.choice([50000000, 1000000000, 5000000])
    secs = ["B" + backend, "M%d" % r.choice([14, 20]),
            "S fh0i0 fr0 ks0=i tr0+%d" % d + (" fh1o1 fr1" if r.random() < 0.5 else ""),
            "Hf0:-/-/-/-/-/%s/%s/ks0= %s" % (r.choice(["-", "tr1+1000", "tu0", "ca%d" % d, "kr0"]),
                                              r.choice(["-", "tr1+%d" % (d // 2), "tu0 tr0+%d" % d, "ks1=o"]),
                                              r.choice(["", "fu0", "tu0"])),
            "Hf1:ks1= fu1", "Ht0:%s" % r.choice(["-", "tr0+%d" % d, "fu0", "q"]), "Ht1:-", "Hk0:-"]
    if r.random() < 0.4:
        secs.append("X" + r.choice(["eintr@%d" % r.randint(2, 8), "notimerfd", "nopwait2"]))
    return ";".join(secs)


def efd_cut(rng, backend):
    """eventfd2 / eventfd start failing after k descriptors were created: raw events and iv_events registered before
    and after the cut (mixed transports), posts to the earlier and the later objects in both orders, unregister /
    re-register across the cut, and the kick descriptor of the epoll methods (its own eventfd_in_use copy)
    re-created after the cut."""
    r = rng
    k = r.choice([1, 1, 1, 2, 2, 3])
    fl = r.choice([["noeventfd"], ["noeventfd"], ["noeventfd"], ["noeventfd2"], ["noeventfd2", "noeventfd"]]) + ["efdok=%d" % k]
    if r.random() < 0.15:
        fl.append(r.choice(["eintr@2", "eintr@3", "ctleintr@2", "notimerfd"]))
    nraw = r.randint(2, 4)
    nev = r.randint(0, 2)
    # registration order: objects created before / after the cut are decided by k and this order
    regs = ["rr%d" % j for j in range(nraw)] + ["er%d" % e for e in range(nev)]
    r.shuffle(regs)
    if r.random() < 0.5:
        regs.sort(key=lambda a: a[0] != "r")       # raw events first: the earlier ones are eventfd-backed
    def post():
        c = r.random()
        if nev and c < 0.25:
            return "ep%d" % r.randrange(nev)
        return "rp%d" % r.randrange(nraw)
    def posts(n):
        return [post() for _ in range(n)]
    style = r.choice(["setup", "setup", "late", "churn", "kick"])
    setup = []
    secs = ["B" + backend, "X" + ",".join(fl), "M%d" % r.choice([8, 12, 16])]
    hr = {}
    if style == "setup":
        setup = regs + posts(r.randint(1, 2 * nraw))
        if r.random() < 0.5:
            setup = setup[::-1] if r.random() < 0.2 else setup
        for j in range(nraw):
            hr[j] = r.choice(["-", "rp%d" % r.randrange(nraw), "ru%d" % j, "-/ru%d rr%d rp%d" % (j, j, j),
                              "rp%d/-" % ((j + 1) % nraw), "ru%d rr%d rp%d/-" % ((j + 1) % nraw, (j + 1) % nraw, (j + 1) % nraw)])
    elif style == "late":
        # some objects before the loop runs, the others from a timer handler; posts from outside at later waits
        cut = r.randint(1, len(regs) - 1)
        setup = regs[:cut] + posts(r.randint(0, 2)) + ["tr0+%d" % r.choice([1000000, 5000000])]
        secs.append("Ht0:" + " ".join(regs[cut:] + posts(r.randint(1, 4))) + r.choice(["", " tr0+5000000"]) + "/" +
                    " ".join(posts(r.randint(1, 3))) + "/-")
        for j in range(nraw):
            hr[j] = r.choice(["-", "rp%d/-" % r.randrange(nraw), "-/ru%d" % j])
    elif style == "churn":
        # unregister / re-register across the cut: the same object changes transport
        j0 = r.randrange(nraw)
        setup = regs + ["rp%d" % j0] + posts(r.randint(0, 3))
        hr[j0] = "ru%d rr%d rp%d/%s/-" % (j0, j0, j0, r.choice(["-", "ru%d" % j0, "rp%d" % ((j0 + 1) % nraw)]))
        for j in range(nraw):
            hr.setdefault(j, r.choice(["-", "ru%d rr%d/-" % (j0, j0), "rp%d/-" % j0]))
    else:
        # the kick descriptor: all iv_events unregistered (kick closed), eventfds used up by raw events, then an
        # iv_event is registered again and posted
        setup = ["er0", "ep0"] + ["rr%d" % j for j in range(nraw)] + posts(2) + ["tr0+%d" % r.choice([1000000, 5000000])]
        secs.append("He0:" + r.choice(["eu0", "-/eu0", "eu0 er0 ep0/-"]))
        secs.append("Ht0:" + r.choice(["er0 ep0", "eu0 er0 ep0", "er0 ep0 rp0", "ru0 er0 ep0 rr0 rp0"]) + " tr0+3000000/" +
                    r.choice(["ep0", "eu0 er0 ep0", "rp0 ep0"]) + "/-")
        for j in range(nraw):
            hr[j] = r.choice(["-", "ep0", "rp%d/-" % r.randrange(nraw)])
        nev = max(nev, 1)
    secs.insert(3, "S " + " ".join(setup))
    for j in range(nraw):
        secs.append("Hr%d:%s" % (j, hr.get(j, "-")))
    if style != "kick":
        for e in range(nev):
            secs.append("He%d:%s" % (e, r.choice(["-", "rp%d" % r.randrange(nraw), "eu%d" % e, "ep%d/-" % e])))
    for w in range(1, 7):
        if r.random() < 0.45:
            secs.append("W%d:%s" % (w, " ".join("rp%d" % r.randrange(nraw) for _ in range(r.choice([1, 1, 2, 3])))))
    return ";".join(secs)
