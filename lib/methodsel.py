"""C15 stage: "every method exclusion requested through the environment".  The real library (harness/method_smoke.c,
real kernel) is started with generated IV_EXCLUDE_POLL_METHOD strings; the method it selects must be the one
Core/MethodSel.v `select` computes (evaluated by coqc, vm_compute) for the token list."""
import os
import re
import subprocess

import vlib

NAMES = ["epoll-timerfd", "epoll", "ppoll", "poll"]
JUNK = ["", "epol", "epoll-", "epoll-timerfd2", "xepoll", "poll2", "ppol", "EPOLL", "kqueue", "dev_poll", "port", "po ll".replace(" ", "_"),
        "e" * 70, "epoll" + "x" * 80, "-", "epoll-timerf"]


def gen(rng, n):
    """list of (tokens, env string); a token is an index 0..3 (method name) or 9 (a string that is not a method name)"""
    out = [([], None), ([], "")]
    seps = [" ", "  ", "\t", "\n", " \t ", "\t\n"]
    for i in range(n):
        k = rng.choice([0, 1, 1, 2, 2, 3, 3, 4, 5, 6])
        toks, parts = [], []
        for _ in range(k):
            if rng.random() < 0.7:
                m = rng.randrange(4)
                toks.append(m)
                parts.append(NAMES[m])
            else:
                j = rng.choice([x for x in JUNK if x])
                toks.append(9)
                parts.append(j)
        s = rng.choice(["", "", " ", "\t"]) + "".join(p + rng.choice(seps) for p in parts)
        if rng.random() < 0.5:
            s = s.rstrip()
        out.append((toks, s))
    # every subset of the four names, in both orders
    for mask in range(16):
        t = [m for m in range(4) if mask >> m & 1]
        out.append((t, " ".join(NAMES[m] for m in t)))
        out.append((list(reversed(t)), "\t".join(NAMES[m] for m in reversed(t))))
    return out


def expected(cases, workdir):
    """evaluate MethodSel.select (all methods available) inside Coq"""
    v = os.path.join(workdir, "msel_cases.v")
    with open(v, "w") as f:
        f.write("From Coq Require Import List ZArith.\nFrom Ivv Require Import Core.MethodSel.\nImport ListNotations.\nLocal Open Scope Z_scope.\n")
        f.write("Definition r (o : option Z) : Z := match o with Some m => m | None => -1 end.\n")
        f.write("Eval vm_compute in map (fun e => r (select (fun _ => true) e)) [%s].\n"
                % "; ".join("[" + "; ".join(str(t) for t in toks) + "]" for toks, _ in cases))
    rc, out = vlib.sh(["coqc", "-Q", os.path.join(vlib.COQ, "theories"), "Ivv", v], timeout=300, cwd=workdir)
    if rc != 0:
        return None, out[-800:]
    nums = re.findall(r"-?\d+", out.split("=", 1)[1].split(":")[0])
    return [int(x) for x in nums], None


def run(exe, rng, workdir, n):
    """returns (n_cases, failures[list of (description, why)], broken[str or None])"""
    cases = gen(rng, n)
    exp, err = expected(cases, workdir)
    if exp is None or len(exp) != len(cases):
        return len(cases), [], "could not evaluate Core/MethodSel.v (proof side broken?): %s" % (err or "length mismatch")
    fails = []
    for (toks, s), e in zip(cases, exp):
        env = dict(os.environ)
        env.pop("IV_EXCLUDE_POLL_METHOD", None)
        if s is not None:
            env["IV_EXCLUDE_POLL_METHOD"] = s
        p = subprocess.run([exe], stdout=subprocess.PIPE, stderr=subprocess.PIPE, text=True, errors="replace", env=env, timeout=60)
        m = re.search(r"METHOD (\S+)", p.stdout)
        got = NAMES.index(m.group(1)) if m and m.group(1) in NAMES else -1
        if got != e:
            fails.append(("IV_EXCLUDE_POLL_METHOD=%r (tokens %s)" % (s, toks),
                          "the library selected %s, the specification (Core/MethodSel.v: first method in the order %s whose exact name is "
                          "not a token) says %s; stderr: %s"
                          % (NAMES[got] if got >= 0 else "nothing (abort)", NAMES, NAMES[e] if e >= 0 else "nothing (abort)", p.stderr[-200:])))
    return len(cases), fails, None
