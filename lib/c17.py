"""C17 -- iv_fd_pump: proofs in Pump/PumpProofs.v; tie = pump_drv (real iv_fd_pump.c with
read/write/splice/ioctl/shutdown/close/pipe2/malloc/free interposed) vs the extracted PumpModel
on identical cases, in both transfer modes; Coq-extracted monitor on the implementation trace."""
import os

import vlib
from framework import LineCheck

BUF = 4096
PIPE = 65536
WRAPS = ["read", "write", "splice", "ioctl", "shutdown", "close", "syscall", "malloc", "free"]


class Sim:
    """Length-only re-implementation of the pump, used ONLY to aim the generators (what is
    buffered, how much room is left, is the cache empty); it is never used as an oracle."""

    def __init__(self, mode):
        self.sp = (mode == "sp")
        self.cache = 0
        self.probed = False
        self.s = {}

    def cap(self):
        return PIPE if self.sp else BUF

    def put(self, nbytes):
        if self.sp and nbytes:
            return
        if self.cache < 20:
            self.cache += 1

    def init(self, k, relay):
        if k in self.s:
            return
        if not self.probed:
            self.probed = True
            if self.sp:
                self.cache += 2
        self.s[k] = dict(bytes=0, full=0, fin=0, hb=0, relay=relay, dead=0)

    def destroy(self, k):
        p = self.s.pop(k, None)
        if p and p["hb"]:
            self.put(p["bytes"])

    def room(self, k):
        p = self.s[k]
        return self.cap() - p["bytes"]

    def pump(self, k, alloc, rds, fion, wrs):
        """rds: list of ('D', n) / 'W' / 'E' / 'X' / 'I'; wrs: list of ('A', n) / 'W' / 'X' / 'I' / 'Z'.
        returns (rc, consumed_from_offer)"""
        p = self.s.get(k)
        if p is None or p["dead"]:
            return None, 0
        rc = None
        took = 0
        if not p["full"] and p["fin"] == 0:
            ok = True
            if not p["hb"]:
                if self.cache > 0:
                    self.cache -= 1
                elif not alloc:
                    ok = False
                if ok:
                    p["hb"] = 1
            if not ok:
                rc = -1
            else:
                r = "W"
                for a in rds:
                    if a == "I":
                        continue
                    r = a
                    break
                if r == "X":
                    rc = -1
                elif r == "E" or (isinstance(r, tuple) and r[1] == 0 and not (self.sp and self.room(k) <= 0)):
                    p["fin"] = 2 if p["bytes"] == 0 else 1
                elif isinstance(r, tuple):
                    n = min(r[1], self.room(k))
                    if n <= 0:
                        r = "W"
                    else:
                        p["bytes"] += n
                        took = n
                        if not self.sp and p["bytes"] == BUF:
                            p["full"] = 1
                if r == "W":
                    if self.sp and p["bytes"]:
                        v = 1 if fion is None else fion
                        if v > 0:
                            p["full"] = 1
        if rc is None and p["bytes"]:
            r = "W"
            for a in wrs:
                if a == "I":
                    continue
                r = a
                break
            if r in ("X", "Z"):
                rc = -1
            elif isinstance(r, tuple):
                n = min(max(r[1], 1), p["bytes"])
                p["full"] = 0
                p["bytes"] -= n
                if p["bytes"] == 0 and p["fin"] == 1:
                    p["fin"] = 2
        if rc is None:
            rc = 0 if p["fin"] == 2 else 1
        if (rc < 0 or p["bytes"] == 0) and p["hb"]:
            self.put(p["bytes"])
            p["hb"] = 0
        if rc < 0:
            p["dead"] = 1
        return rc, took


def tok_rds(rds, pos, rng):
    out = []
    for a in rds:
        if isinstance(a, tuple):
            n = a[1]
            if n <= 24 and rng.random() < 0.7:
                out.append("D" + "".join("%02x" % rng.randrange(256) for _ in range(n)))
            else:
                out.append("G%d@%d" % (n, (pos * 7 + rng.randrange(256)) % 100000))
        else:
            out.append(a)
    return ",".join(out) if out else "-"


def tok_wrs(wrs):
    out = []
    for a in wrs:
        out.append("A%d" % a[1] if isinstance(a, tuple) else a)
    return ",".join(out) if out else "-"


class Gen:
    def __init__(self, rng, mode):
        self.rng = rng
        self.mode = mode
        self.sim = Sim(mode)
        self.toks = [mode]
        self.pos = 0

    def init(self, k, relay):
        self.toks.append("i%d:%d" % (k, 1 if relay else 0))
        self.sim.init(k, relay)

    def destroy(self, k):
        self.toks.append("d%d" % k)
        self.sim.destroy(k)

    def query(self, k):
        self.toks.append("q%d" % k)

    def pump(self, k, rds, wrs, alloc=True, fion=0):
        ft = "F" if fion is None else str(fion)
        self.toks.append("p%d:%d:%s:%s:%s" % (k, 1 if alloc else 0, tok_rds(rds, self.pos, self.rng), ft, tok_wrs(wrs)))
        rc, took = self.sim.pump(k, alloc, rds, fion, wrs)
        self.pos += took
        return rc

    def line(self):
        return " ".join(self.toks)

    # -- choices aimed at the case splits of the proofs --
    def pick_in(self, k, remaining, eof_ok=True):
        """one input answer for pump k given `remaining` bytes of source"""
        rng = self.rng
        p = self.sim.s.get(k)
        room = self.sim.room(k) if p else BUF
        eintr = ["I"] * rng.choice([0, 0, 0, 1, 2])
        if remaining <= 0:
            return eintr + ([("E" if eof_ok else "W")] if rng.random() < 0.8 else ["W"]), 0
        r = rng.random()
        if r < 0.12:
            return eintr + ["W"], 0
        sizes = [1, 2, 3, rng.randint(1, 64), rng.randint(1, 1500), room, room - 1, room + 1, BUF, BUF + 1, 5000, 700]
        if self.sim.sp:
            sizes += [rng.randint(4000, 30000), 65536, 70000]
        n = rng.choice(sizes)
        n = max(1, min(n, remaining))
        return eintr + [("D", n)], n

    def pick_out(self, k, style):
        rng = self.rng
        p = self.sim.s.get(k)
        b = p["bytes"] if p else 0
        eintr = ["I"] * rng.choice([0, 0, 0, 1, 3])
        if style == "all":
            return eintr + [("A", 1 << 20)]
        if style == "one":
            return eintr + [("A", 1)]
        if style == "block":
            return eintr + (["W"] if rng.random() < 0.85 else [("A", rng.randint(1, 9))])
        r = rng.random()
        if r < 0.25:
            return eintr + ["W"]
        n = rng.choice([1, 2, rng.randint(1, 100), max(1, b - 1), b, b + 1, max(1, b // 2), 4096, 1 << 20, 0, -3])
        return eintr + [("A", n)]


def g_stream(rng, mode, big=False):
    """one pump relaying a source of L bytes with random chunking / back-pressure, EOF at the end"""
    g = Gen(rng, mode)
    relay = rng.random() < 0.6
    k = rng.randrange(0, 40)
    g.init(k, relay)
    if big:
        L = rng.choice([5000, 9000, 20000, 70000, 140000]) if mode == "sp" else rng.choice([4096, 4097, 8192, 9000, 20000])
    else:
        L = rng.choice([0, 1, 2, 5, 17, 100, 600, 4095, 4096, 4097])
    style = rng.choice(["all", "one", "block", "mix", "mix", "mix"])
    remaining = L
    rc = 1
    n_ops = 0
    limit = 60 if not big else 120
    while rc == 1 and n_ops < limit:
        st = style
        if style == "block" and (n_ops > limit // 3 or g.sim.s[k]["full"]):
            st = "mix" if rng.random() < 0.7 else "all"
        if style == "one" and n_ops > 25:
            st = "all"
        rds, n = g.pick_in(k, remaining)
        before = g.pos
        fion = rng.choice([0, 0, 1, remaining, 5, None, -1]) if mode == "sp" else rng.choice([0, 7])
        rc = g.pump(k, rds, g.pick_out(k, st), True, fion)
        remaining -= g.pos - before
        n_ops += 1
    # after completion: later calls keep returning 0; query; destroy
    for _ in range(rng.choice([0, 1, 2])):
        g.pump(k, [("D", 5)], [("A", 5)], True, 0)
    if rng.random() < 0.7:
        g.query(k)
    if rng.random() < 0.8:
        g.destroy(k)
    return g.line()


def g_full_rw(rng, mode):
    """read/write mode: reach exactly BUF_SIZE with the output blocked, then partial drains and refills"""
    g = Gen(rng, mode)
    k = rng.randrange(0, 5)
    g.init(k, rng.random() < 0.5)
    cap = g.sim.cap()
    steps = rng.choice([1, 2, 3, 5])
    for i in range(steps):
        n = cap // steps if i < steps - 1 else cap
        g.pump(k, [("D", n)], ["W"], True, rng.choice([0, 3]))
    # full now (rw); further input must not be attempted
    g.pump(k, [("D", 10)], ["W"], True, rng.choice([0, 3, None]))
    g.pump(k, [("D", 10)], [("A", rng.choice([1, 100, cap - 1]))], True, 1)
    for _ in range(rng.randint(2, 8)):
        rds, _n = g.pick_in(k, rng.choice([0, 50, 5000]))
        g.pump(k, rds, g.pick_out(k, "mix"), True, rng.choice([0, 1, 100, None]))
    g.pump(k, ["E"], [("A", 1 << 20)], True, 0)
    g.pump(k, ["E"], [("A", 1 << 20)], True, 0)
    g.query(k)
    g.destroy(k)
    return g.line()


def g_pipe_full(rng):
    """splice mode: fill the pipe to 65536, EAGAIN + FIONREAD discrimination, drain"""
    g = Gen(rng, "sp")
    k = rng.randrange(0, 5)
    g.init(k, rng.random() < 0.5)
    target = rng.choice([PIPE, PIPE, PIPE - 1, 30000, 100])
    while g.sim.s[k]["bytes"] < target:
        n = min(rng.choice([4096, 10000, 65536, 70000, 12345]), target - g.sim.s[k]["bytes"])
        g.pump(k, [("D", n)], ["W"], True, rng.choice([0, 1]))
        if g.sim.s[k]["full"]:
            break
    # input would block now (pipe full: Data offered with no room; or source dry)
    for fion in rng.sample([0, 1, 4096, None, -1, 0], 3):
        g.pump(k, [rng.choice([("D", 100), "W"])], [rng.choice(["W", "W", ("A", rng.choice([1, 4096, 65536]))])], True, fion)
    for _ in range(rng.randint(1, 6)):
        rds, _n = g.pick_in(k, rng.choice([0, 3000, 100000]))
        g.pump(k, rds, g.pick_out(k, "mix"), True, rng.choice([0, 1, None, 2]))
    for _ in range(3):
        g.pump(k, ["E"], [("A", 1 << 20)], True, 0)
    g.query(k)
    if rng.random() < 0.7:
        g.destroy(k)
    return g.line()


def g_eof(rng, mode):
    """EOF at a chosen state: empty buffer, buffered data, full buffer; drain in pieces; relay flag on/off"""
    g = Gen(rng, mode)
    k = rng.randrange(0, 5)
    relay = rng.random() < 0.7
    g.init(k, relay)
    have = rng.choice([0, 1, 2, 10, 4095, 4096, 4096, 300])
    if have:
        g.pump(k, [("D", have)], ["W"], True, 0)
    n_eof = 0
    for _ in range(rng.randint(1, 10)):
        w = rng.choice([["W"], [("A", 1)], [("A", max(1, have // 3))], [("A", 1 << 20)], ["I", ("A", 2)], [("A", have)]])
        g.pump(k, ["I"] * rng.choice([0, 1]) + [rng.choice(["E", "E", ("D", 0)])], w, True, rng.choice([0, 1]))
        if rng.random() < 0.3:
            g.query(k)
    g.pump(k, [("D", 3)], [("A", 1 << 20)], True, 0)
    g.pump(k, [("D", 3)], [("A", 1 << 20)], True, 0)
    g.query(k)
    g.destroy(k)
    return g.line()


def g_error(rng, mode):
    """I/O error / write returning 0 / malloc failure at a chosen point; then misuse attempts (skipped), destroy, re-init"""
    g = Gen(rng, mode)
    k = rng.randrange(0, 5)
    g.init(k, rng.random() < 0.5)
    kind = rng.choice(["rerr", "werr", "wzero", "alloc", "werr_after_eof", "rerr_buffered"])
    if kind == "alloc":
        if mode == "sp":
            # empty the cache first: two other pumps take the probe's buffers and keep them
            for j in (10, 11):
                g.init(j, False)
                g.pump(j, [("D", 5)], ["W"], True, 0)
        g.pump(k, [("D", 10)], [("A", 100)], False, 0)
    else:
        for _ in range(rng.randint(0, 4)):
            rds, _n = g.pick_in(k, 10000, eof_ok=False)
            g.pump(k, rds, g.pick_out(k, "mix"), True, rng.choice([0, 1]))
        if kind == "rerr":
            g.pump(k, ["I"] * rng.choice([0, 2]) + ["X"], [("A", 10)], True, 0)
        elif kind == "rerr_buffered":
            g.pump(k, [("D", 100)], ["W"], True, 0)
            g.pump(k, ["X"], [("A", 10)], True, 0)
        elif kind == "werr":
            g.pump(k, [("D", 50)], ["I"] * rng.choice([0, 1]) + ["X"], True, 0)
        elif kind == "wzero":
            g.pump(k, [("D", 50)], ["Z"], True, 0)
        else:
            g.pump(k, [("D", 50)], ["W"], True, 0)
            g.pump(k, ["E"], [("A", 7)], True, 0)
            g.pump(k, ["E"], [rng.choice(["X", "Z"])], True, 0)
    g.query(k)
    g.pump(k, [("D", 4)], [("A", 4)], True, 0)       # after an error: skipped by both drivers
    g.destroy(k)
    g.destroy(k)
    if rng.random() < 0.6:
        g.init(k, True)
        g.pump(k, [("D", 4)], [("A", 4)], True, 0)
        g.pump(k, ["E"], [("A", 4)], True, 0)
    return g.line()


def g_cache(rng, mode):
    """many pumps sharing the per-thread cache: more than 20 buffers in flight, returned, reused, freed"""
    g = Gen(rng, mode)
    n = rng.choice([3, 8, 21, 22, 25, 30, 40])
    ks = rng.sample(range(40), n)
    for k in ks:
        g.init(k, rng.random() < 0.3)
    for k in ks:
        g.pump(k, [("D", rng.choice([1, 10, 4096]))], ["W"], True, 0)
    order = ks[:]
    rng.shuffle(order)
    for k in order:
        r = rng.random()
        if r < 0.6:
            g.pump(k, ["W"], [("A", 1 << 20)], True, 0)         # drained: buffer goes back to the cache / is freed
        elif r < 0.8:
            g.destroy(k)                                         # destroyed with data buffered
        else:
            g.pump(k, ["W"], ["X"], True, 0)                     # error with data buffered
    rng.shuffle(order)
    for k in order[: max(1, n // 2)]:
        if k in g.sim.s and not g.sim.s[k]["dead"]:
            alloc = not (g.sim.cache == 0 and rng.random() < 0.3)
            g.pump(k, [("D", 7)], [rng.choice(["W", ("A", 7)])], alloc if g.sim.cache == 0 else rng.random() < 0.5, 0)
        else:
            g.destroy(k)
            g.init(k, False)
    for k in order:
        if rng.random() < 0.5:
            g.destroy(k)
    return g.line()


def g_random(rng, mode):
    """unstructured: random ops on a few pumps, random (also inconsistent) oracle answers"""
    g = Gen(rng, mode)
    nk = rng.choice([1, 2, 4])
    for _ in range(rng.choice([10, 30, 80])):
        k = rng.randrange(nk)
        r = rng.random()
        if r < 0.15:
            g.init(k, rng.random() < 0.5)
        elif r < 0.22:
            g.destroy(k)
        elif r < 0.3:
            g.query(k)
        else:
            rds = []
            for _ in range(rng.choice([0, 1, 1, 2, 3])):
                x = rng.random()
                rds.append("I" if x < 0.3 else "W" if x < 0.45 else "E" if x < 0.5 else "X" if x < 0.53 else
                           ("D", rng.choice([0, 1, 5, 100, 4096, 5000])))
            wrs = []
            for _ in range(rng.choice([0, 1, 1, 2, 3])):
                x = rng.random()
                wrs.append("I" if x < 0.3 else "W" if x < 0.45 else "X" if x < 0.48 else "Z" if x < 0.5 else
                           ("A", rng.choice([-1, 0, 1, 3, 50, 4096, 1 << 20])))
            g.pump(k, rds, wrs, rng.random() < 0.9, rng.choice([0, 1, None, -5, 70000]))
    return g.line()


class C17(LineCheck):
    pid = "C17"
    coq_targets = ["theories/Pump/PumpModel.vo", "theories/Pump/PumpMonitor.vo", "theories/Pump/PumpProofs.vo"]
    corr_name = ("correspondence pump_drv(iv_fd_pump.c, syscalls interposed) = extracted PumpModel (per call: return code, every "
                 "read/write/splice attempt with requested size and result bytes, FIONREAD, shutdown, every set_bands, buffer malloc/free, "
                 "and the public fields bytes/full/saw_fin/buf!=NULL), in read/write and in splice mode")
    trusted = [
        "modelled, not verified: the kernel side of the pump's descriptors is an oracle (any answer sequence); the splice pipe is its "
        "content as a list with capacity 65536 bytes (real pipes count pages: a fragmented pipe is 'full' earlier, which is one more "
        "EAGAIN answer of the oracle); the per-thread cache list is represented by its length num_bufs",
        "pump_drv.c: linker interposition (--wrap) of read/write/splice/ioctl/shutdown/close/syscall(pipe2)/malloc/free; fake descriptor "
        "numbers; splice emulated over the REAL pipe iv_fd_pump.c created (write in / read back out), probe answer forces the mode; "
        "one forked process per case",
        "not exercised: grab_pipe failure (pipe2/pipe errors), the pipe()+cloexec fallback, builds without HAVE_SPLICE",
    ]
    assumptions = [
        "a pump object is not pumped again after iv_fd_pump_pump returned -1 (only destroyed); the model shows what the code would do "
        "otherwise (NullBuf / Garbage outcomes, theorem C17_pump_after_error_unsafe)",
        "a read/write answer script that runs out means EAGAIN; an endless EINTR sequence (non-termination of the retry loop) is outside the claim",
        "single thread (the cache is per-thread state)",
    ]
    rule = ("cases = seeded scripts for one or several pumps in both modes: random chunkings x back-pressure styles (all/one byte/blocked/mixed) "
            "with EOF at the end of sources of boundary lengths (0,1,4095,4096,4097, > pipe size), exact fills of the 4096 buffer and of the "
            "65536 pipe with the FIONREAD discrimination (0, >0, negative, ioctl failure), EOF in every buffer state with piecewise drains and "
            "RELAY_EOF on/off, read/write errors, write returning 0 and malloc failure at chosen points followed by destroy/re-init, "
            "up to 40 pumps around the 20-buffer cache limit, and unstructured random scripts; a case is non-trivial when its model trace "
            "contains an input that delivered bytes AND (a partial write: fewer bytes accepted than offered, or a would-block on output with "
            "data pending); distinct = distinct case text")

    def build(self, ctx):
        d = os.path.join(ctx.work, "b")
        ok, out = vlib.coq_extract("Extract/ExtractPump.v", d)
        if not ok:
            return False, out
        with open(os.path.join(d, "pump_drv.ml"), "w") as f:
            f.write("open Pump_model\n")
            f.write(open(os.path.join(vlib.VERIF, "ocaml", "zutil.ml.in")).read())
            f.write(open(os.path.join(vlib.VERIF, "ocaml", "pump_drv.ml.in")).read())
        ok, out2 = vlib.ocaml_build(d, ["pump_model.ml", "pump_drv.ml"], "pump_model_run")
        if not ok:
            return False, out + out2
        ok, out3 = vlib.cc_build(d, "pump_drv", ["pump_drv.c"], vlib.LIB_SRCS, wraps=WRAPS)
        self.d = d
        return ok, out + out2 + out3

    def model_cmd(self, ctx):
        return [os.path.join(self.d, "pump_model_run"), "run"]

    def impl_cmd(self, ctx):
        return [os.path.join(self.d, "pump_drv")]

    def monitor_cmd(self, ctx):
        return [os.path.join(self.d, "pump_model_run"), "mon"]

    def cases(self, ctx):
        rng = vlib.rng_for(ctx.seed, "C17")
        cases = []
        corpus = os.path.join(vlib.VERIF, "corpus", "C17.txt")
        if os.path.exists(corpus):
            cases += [l.rstrip("\n") for l in open(corpus) if l.strip()]
        self.n_corpus = len(cases)
        scale = 1 if ctx.tier == "quick" else 10
        self.counts = {}

        def add(name, n, f):
            self.counts[name] = n
            for _ in range(n):
                cases.append(f())

        for mode in ("rw", "sp"):
            add("stream_" + mode, 220 * scale, lambda: g_stream(rng, mode))
            add("stream_big_" + mode, 30 * scale, lambda: g_stream(rng, mode, big=True))
            add("eof_" + mode, 120 * scale, lambda: g_eof(rng, mode))
            add("error_" + mode, 100 * scale, lambda: g_error(rng, mode))
            add("cache_" + mode, 40 * scale, lambda: g_cache(rng, mode))
            add("random_" + mode, 120 * scale, lambda: g_random(rng, mode))
        add("full_rw", 80 * scale, lambda: g_full_rw(rng, "rw"))
        add("full_via_sp_gen", 20 * scale, lambda: g_full_rw(rng, "sp"))
        add("pipe_full_sp", 40 * scale, lambda: g_pipe_full(rng))
        return cases

    def nontrivial(self, case, mo):
        if mo is None:
            return False
        got_in = False
        back = False
        for t in mo.split():
            if t.startswith("in") and ":G" in t:
                got_in = True
            elif t.startswith("out"):
                req, _, r = t[3:].partition(":")
                if r == "W" or (r.startswith("G") and (len(r) - 1) // 2 < int(req)):
                    back = True
        return got_in and back

    def describe(self, case):
        toks = case.split()
        return {"mode": toks[0] if toks else "", "ops": len(toks) - 1,
                "case": case[:500] + (" ...[%d chars]" % len(case) if len(case) > 500 else "")}

    def signature(self, case, why):
        return "pump:" + ("crash" if "crash" in why or "sanitizer" in why else "monitor")

    def distribution(self, cases):
        d = {"corpus_cases": self.n_corpus, "generators": dict(self.counts)}
        ops = {"init": 0, "destroy": 0, "pump": 0, "is_done": 0}
        feat = {"mode_rw": 0, "mode_sp": 0, "cases_with_eof": 0, "cases_with_read_error": 0, "cases_with_write_error_or_zero": 0,
                "cases_with_eintr": 0, "cases_with_malloc_failure": 0, "cases_with_fionread_failure": 0, "cases_with_relay_eof": 0,
                "cases_with_more_than_20_pumps": 0}
        for c in cases:
            toks = c.split()
            if not toks:
                continue
            feat["mode_" + toks[0]] = feat.get("mode_" + toks[0], 0) + 1
            eof = rerr = werr = eintr = mf = ff = rel = False
            inits = set()
            for t in toks[1:]:
                if t[0] == "i":
                    ops["init"] += 1
                    inits.add(t.split(":")[0])
                    rel = rel or t.endswith(":1")
                elif t[0] == "d":
                    ops["destroy"] += 1
                elif t[0] == "q":
                    ops["is_done"] += 1
                elif t[0] == "p":
                    ops["pump"] += 1
                    f = t.split(":")
                    if len(f) == 5:
                        r, w = f[2].split(","), f[4].split(",")
                        eof = eof or "E" in r
                        rerr = rerr or "X" in r
                        werr = werr or "X" in w or "Z" in w
                        eintr = eintr or "I" in r or "I" in w
                        mf = mf or f[1] == "0"
                        ff = ff or f[3] == "F"
            for name, v in (("cases_with_eof", eof), ("cases_with_read_error", rerr), ("cases_with_write_error_or_zero", werr),
                            ("cases_with_eintr", eintr), ("cases_with_malloc_failure", mf), ("cases_with_fionread_failure", ff),
                            ("cases_with_relay_eof", rel), ("cases_with_more_than_20_pumps", len(inits) > 20)):
                feat[name] += 1 if v else 0
        d["ops"] = ops
        d["features"] = feat
        return d

    def _fails(self, ctx, case):
        st = self.correspond(ctx, [case])
        return bool(st["crashes"] or st["monfail"])

    def shrink(self, ctx, case):
        toks = case.split()
        mode, ops = toks[0], toks[1:]
        if len(ops) <= 1:
            return case
        tries = 0
        chunk = max(1, len(ops) // 2)
        while chunk >= 1 and tries < 100:
            i = 0
            changed = False
            while i < len(ops) and tries < 100:
                cand = ops[:i] + ops[i + chunk:]
                tries += 1
                if cand and self._fails(ctx, " ".join([mode] + cand)):
                    ops = cand
                    changed = True
                else:
                    i += chunk
            if not changed or chunk == 1:
                chunk //= 2
        return " ".join([mode] + ops)

    def widen(self, ctx, case):
        """prefixes of a diverging script, and the same script in the other mode"""
        toks = case.split()
        mode, ops = toks[0], toks[1:]
        out = [" ".join([mode] + ops[:k]) for k in range(1, min(len(ops), 60) + 1)]
        other = "sp" if mode == "rw" else "rw"
        out.append(" ".join([other] + ops))
        return out
