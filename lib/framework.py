"""Template of a check: proofs (Coq) + tie (model vs implementation on the same
cases) + monitors on the implementation trace + verdict + evidence.

A property plugin subclasses LineCheck and provides the family-specific parts.
Cases are single text lines; the C harness and the extracted model both answer
one line per case."""
import hashlib
import re
import os
import shutil
import sys
import time

import vlib
import runner
from vlib import log

TRUSTED_COMMON = [
    "Coq 8.16.1 kernel (coqc); vm_compute only in finite-domain lemmas and non-vacuity Examples; no native_compute",
    "no axioms declared by the development (grep gate + Print Assumptions per theorem)",
    "extraction (ExtrOcamlBasic only, no Extract Constant / Extract Inductive of our own) and OCaml 4.13.1",
    "hand-written OCaml drivers (parsing/printing), python generators and differ",
    "C harness built from /repo's working tree with gcc -O1 + ASan/UBSan",
]


class Ctx:
    def __init__(self, pid, tier, seed, replay=None):
        self.pid = pid
        self.tier = tier
        self.seed = seed
        self.replay = replay
        self.t0 = time.time()
        self.verdict = vlib.Verdict(pid)
        self.work = os.path.join(vlib.BUILD, "run", "%s.%d" % (pid, os.getpid()))
        os.makedirs(self.work, exist_ok=True)

    def cleanup(self):
        shutil.rmtree(self.work, ignore_errors=True)


class LineCheck:
    pid = None
    coq_targets = []          # .vo files to make before compiling the property file
    trusted = []              # family-specific trusted-base lines
    assumptions = []          # evidence "assumptions"
    corr_name = "correspondence"

    # ---- family hooks -------------------------------------------------
    def build(self, ctx):
        """Build model runner and C harness.  Return (ok, log)."""
        raise NotImplementedError

    def cases(self, ctx):
        """Return list of case lines (corpus first)."""
        raise NotImplementedError

    def model_cmd(self, ctx):
        raise NotImplementedError

    def impl_cmd(self, ctx):
        raise NotImplementedError

    def monitor_cmd(self, ctx):
        """Command prefix; framework appends [cases_file, impl_file]. None = no monitor."""
        return None

    def nontrivial(self, case, model_out):
        return True

    def describe(self, case):
        return case

    def signature(self, case, why):
        return "corr"

    def widen(self, ctx, case):
        """Extra cases around a diverging one (failing-input search)."""
        return []

    rule = ""
    impl_env = None

    # ---- common flow --------------------------------------------------
    def proofs(self, ctx):
        st = {"obligations": 0, "discharged": 0, "broken": None, "assumptions": {}, "log": ""}
        bad = vlib.grep_gate()
        if bad:
            st["broken"] = "forbidden vernacular: " + "; ".join(bad[:5])
        pre = self.pre_proof(ctx)
        if pre:
            st["broken"] = pre
        ok, out = vlib.coq_make(self.coq_targets)
        if not ok:
            st["broken"] = (st["broken"] or "") + " make failed: " + _first_error(out)
            st["log"] = out[-3000:]
        res = vlib.coq_compile_props(self.pid)
        st["theorems"] = res["theorems"]
        st["obligations"] = len(res["theorems"])
        st["assumptions"] = res["assumptions"]
        if res["ok"]:
            closed = 0
            for n in res["theorems"]:
                ax = res["assumptions"].get(n)
                if ax is None:
                    st["broken"] = (st["broken"] or "") + " no Print Assumptions for %s" % n
                    continue
                foreign = [a for a in ax if not any(a.endswith(s) or s in a for s in vlib.STDLIB_AXIOMS)]
                if foreign:
                    st["broken"] = (st["broken"] or "") + " %s depends on %s" % (n, foreign)
                else:
                    closed += 1
            st["discharged"] = closed
        else:
            st["broken"] = (st["broken"] or "") + " Properties_%s.v does not compile: %s" % (self.pid, _first_error(res["log"]))
            st["log"] = res["log"][-3000:]
        return st

    def pre_proof(self, ctx):
        """Hook: regenerate translated definitions etc.  Return error string or None."""
        return None

    def correspond(self, ctx, cases):
        """Run model and implementation, compare, run monitors. Returns stats dict."""
        mcmd, icmd = self.model_cmd(ctx), self.impl_cmd(ctx)
        env = dict(runner.ASAN_ENV)
        env.update(self.impl_env or {})
        mres = runner.run_cases_sharded(mcmd, cases, timeout=self.timeout(ctx))
        ires = runner.run_cases_sharded(icmd, cases, timeout=self.timeout(ctx), env=env)
        impl_lines = [r[0] for r in ires]
        mon = None
        if self.monitor_cmd(ctx):
            mon = runner.run_monitor(self.monitor_cmd(ctx), cases, impl_lines, ctx.work)
        div, crashes, monfail = [], [], []
        nontriv = set()
        for idx, c in enumerate(cases):
            mo, merr = mres[idx]
            io, ierr = ires[idx]
            if merr is not None or mo is None:
                div.append((idx, "model runner failed: %s" % (merr or "")[:300]))
                continue
            if ierr is not None:
                crashes.append((idx, ierr))
            elif io != mo:
                div.append((idx, first_diff(mo, io)))
            if mon is not None and ierr is None and not mon[idx].startswith("OK"):
                monfail.append((idx, mon[idx]))
            if self.nontrivial(c, mo):
                nontriv.add(hashlib.sha1(c.encode()).hexdigest())
        return {"n": len(cases), "div": div, "crashes": crashes, "monfail": monfail,
                "nontrivial": len(nontriv), "mres": mres, "ires": ires, "mon": mon}

    def timeout(self, ctx):
        return 900 if ctx.tier == "quick" else 3000

    def run(self, ctx):
        pst = self.proofs(ctx)
        ok, blog = self.build(ctx)
        cases = []
        st = None
        if not ok:
            ctx.verdict.report("build", "harness/model build failed", "build of the %s harness or model failed:\n%s" % (self.pid, blog[-4000:]), has_input=False)
        else:
            cases = self.cases(ctx)
            st = self.correspond(ctx, cases)
            self.judge(ctx, cases, st, pst)
            # sibling stages: source files anchored by this property that another check's machinery drives (e.g. C01 names
            # iv_inotify.c / iv_signal.c / iv_wait.c, C18 names iv_fd_pump.c): run that check's correspondence + monitors
            # (not its proofs) and report what it finds under THIS property
            self.sub_stats = {}
            for sub_id, sub_cls in self.sibling_stages():
                self.run_sibling(ctx, sub_id, sub_cls)
            # thorough tier: further rounds with fresh seeds until the time budget is used (or something fails)
            self.rounds = 1
            if ctx.tier == "thorough":
                budget = int(os.environ.get("VERIF_THOROUGH_SECONDS", "300"))
                seed0 = ctx.seed
                while time.time() - ctx.t0 < budget and not ctx.verdict.violations and self.rounds < 50:
                    ctx.seed = seed0 + 1000 * self.rounds
                    c2 = self.cases(ctx)
                    s2 = self.correspond(ctx, c2)
                    self.judge(ctx, c2, s2, pst)
                    off = len(cases)
                    cases = cases + c2
                    for k in ("div", "crashes", "monfail"):
                        st[k] = st[k] + [(off + i, w) for i, w in s2[k]]
                    st["n"] += s2["n"]
                    st["nontrivial"] += s2["nontrivial"]
                    st["mres"], st["ires"] = [], []
                    self.rounds += 1
                ctx.seed = seed0
        if pst["broken"] and not ctx.verdict.violations and not ctx.verdict.known:
            ctx.verdict.report("proof", "proof broken",
                               "property %s: proof obligations no longer check.\n%s\n%s\nno failing input was found by the correspondence runs (%d cases).\n"
                               % (self.pid, pst["broken"], pst["log"], len(cases)), has_input=False)
        self.evidence(ctx, cases, st, pst)
        return ctx.verdict.exit_code()

    def sibling_stages(self):
        """[(id, check class)] whose correspondence stage also decides clauses of this property"""
        return []

    def run_sibling(self, ctx, sub_id, sub_cls):
        sub = sub_cls()
        sctx = Ctx(self.pid, "quick" if ctx.tier == "quick" else "thorough", ctx.seed)
        sctx.work = os.path.join(ctx.work, "sib_" + sub_id)
        os.makedirs(sctx.work, exist_ok=True)
        sctx.verdict = ctx.verdict
        ok, blog = sub.build(sctx)
        if not ok:
            ctx.verdict.report("build", "harness/model build failed",
                               "build of the %s stage used by %s failed:\n%s" % (sub_id, self.pid, blog[-3000:]), has_input=False)
            return
        sc = sub.cases(sctx)
        if ctx.tier != "quick":
            pass
        sst = sub.correspond(sctx, sc)
        self.sub_stats[sub_id] = {"cases": len(sc), "divergences": len(sst["div"]), "crashes": len(sst["crashes"]),
                                  "monitor_failures": len(sst["monfail"])}
        # the sibling's judge reports under ctx.verdict, whose property id is ours; replay files carry the sibling's case
        # format, so name the stage in the signature
        old_sig = sub.signature
        sub.signature = lambda case, why, _o=old_sig, _i=sub_id: "stage_%s_%s" % (_i, _o(case, why))
        sub.pid = self.pid
        sub.judge(sctx, sc, sst, {"broken": None})

    def judge(self, ctx, cases, st, pst):
        failing = {}
        for idx, err in st["crashes"]:
            failing[idx] = "implementation crashed / sanitizer report:\n" + err
        for idx, why in st["monfail"]:
            failing.setdefault(idx, "Coq-extracted monitor on the implementation trace: " + why)
        found_input = False
        for idx in sorted(failing)[:5]:
            c = cases[idx]
            small = self.shrink(ctx, c)
            why, mo, io = failing[idx], st["mres"][idx][0], st["ires"][idx][0]
            if small != c:
                s1 = self.correspond(ctx, [small])
                w1 = (["implementation crashed / sanitizer report:\n" + e for _, e in s1["crashes"]] +
                      ["Coq-extracted monitor on the implementation trace: " + w for _, w in s1["monfail"]])
                if w1:
                    why, mo, io = w1[0], s1["mres"][0][0], s1["ires"][0][0]
                else:
                    small = c
            txt = ("property %s violated on the implementation.\ncase: %s\n%s\n\nwhy: %s\n\nmodel output:\n%s\n\nimplementation output:\n%s\n"
                   % (self.pid, small, self.describe(small), why, mo, io))
            ctx.verdict.report(self.signature(small, why), "monitor/sanitizer", txt, has_input=True)
            found_input = True
        if st["div"] and not found_input:
            # widened search around the first divergences
            extra = []
            for idx, _ in st["div"][:20]:
                extra += self.widen(ctx, cases[idx])
            if extra:
                st2 = self.correspond(ctx, extra)
                f2 = {}
                for idx, err in st2["crashes"]:
                    f2[idx] = "implementation crashed / sanitizer report:\n" + err
                for idx, why in st2["monfail"]:
                    f2.setdefault(idx, "Coq-extracted monitor: " + why)
                for idx in sorted(f2)[:3]:
                    c = extra[idx]
                    txt = ("property %s violated on the implementation (found by widening the search around a model/implementation divergence).\ncase: %s\n%s\nwhy: %s\nimplementation output:\n%s\n"
                           % (self.pid, c, self.describe(c), f2[idx], st2["ires"][idx][0]))
                    ctx.verdict.report(self.signature(c, f2[idx]), "monitor/sanitizer", txt, has_input=True)
                    found_input = True
        if st["div"] and not found_input:
            idx, why = st["div"][0]
            txt = ("property %s: the %s between the Coq model and /repo no longer checks (%d of %d cases diverge);\n"
                   "the property's monitors accept every implementation trace tried, so no failing input was found.\n"
                   "broken correspondence: %s\nfirst diverging case: %s\n%s\nfirst difference: %s\nmodel: %s\nimpl:  %s\n"
                   % (self.pid, self.corr_name, len(st["div"]), st["n"], self.corr_name, cases[idx], self.describe(cases[idx]),
                      why, st["mres"][idx][0], st["ires"][idx][0]))
            if pst and pst.get("broken"):
                txt += "proof obligations that no longer check as well (theorem / link file named by coqc):\n%s\n" % pst["broken"][:3000]
            ctx.verdict.report("corr", "correspondence broken", txt, has_input=False)

    def shrink(self, ctx, case):
        return case

    def evidence(self, ctx, cases, st, pst):
        cov = {
            "obligations": max(1, pst["obligations"]),
            "discharged": pst["discharged"],
            "checker_cmd": "make -C coq %s && coqc -Q theories Ivv theories/Props/Properties_%s.v (full .vo build, Print Assumptions per theorem)" % (" ".join(self.coq_targets), self.pid),
            "trusted_base": TRUSTED_COMMON + list(self.trusted),
            "theorems": pst.get("theorems", []),
            "print_assumptions": {k: (v if v else "Closed under the global context") for k, v in pst["assumptions"].items()},
            "proof_broken": pst["broken"],
            "evaluations": len(cases),
            "distinct_nontrivial": st["nontrivial"] if st else 0,
            "rule": self.rule,
            "samples": [self.describe(c) for c in cases[:1]] + [self.describe(c) for c in cases[len(cases) // 2: len(cases) // 2 + 2]],
            "traces_validated_against_impl": (st["n"] - len(st["div"]) - len(st["crashes"])) if st else 0,
            "divergences": len(st["div"]) if st else 0,
            "impl_crashes": len(st["crashes"]) if st else 0,
            "monitor_failures": len(st["monfail"]) if st else 0,
            "input_distribution": dict(self.distribution(cases), rounds_with_fresh_seeds=getattr(self, "rounds", 1),
                                       sibling_stages=getattr(self, "sub_stats", {})),
        }
        vlib.write_evidence(self.pid, ctx.tier, ctx.seed, cov, time.time() - ctx.t0,
                            len(ctx.verdict.violations), list(self.assumptions))

    def distribution(self, cases):
        return {}


def first_diff(a, b):
    if a is None or b is None:
        return "missing output"
    sa, sb = a.split(" | "), b.split(" | ")
    for i, (x, y) in enumerate(zip(sa, sb)):
        if x != y:
            return "segment %d: model `%s` vs impl `%s`" % (i, x[:300], y[:300])
    return "length: model %d segments vs impl %d" % (len(sa), len(sb))


def _enclosing_statement(relpath, lineno):
    """name of the Lemma / Theorem / Definition of coq/<relpath> whose text contains line `lineno` (for error messages)"""
    try:
        txt = open(os.path.join(vlib.COQ, relpath)).read().splitlines()
    except OSError:
        return None
    for j in range(min(lineno, len(txt)) - 1, -1, -1):
        m = re.match(r"\s*(Theorem|Lemma|Corollary|Example|Definition|Fixpoint)\s+(\w+)", txt[j])
        if m:
            return "%s %s" % (m.group(1), m.group(2))
    return None


def _first_error(out):
    lines = out.splitlines()
    for i, l in enumerate(lines):
        if l.startswith("File ") and i + 1 < len(lines):
            msg = " ".join(lines[i:i + 4])[:600]
            m = re.match(r'File "\./(theories/[^"]+)", line (\d+)', l)
            if m:
                who = _enclosing_statement(m.group(1), int(m.group(2)))
                if who:
                    msg = "[%s of %s no longer checks] %s" % (who, m.group(1), msg)
            return msg
    return out[-400:]


def main(checks):
    import argparse
    ap = argparse.ArgumentParser()
    ap.add_argument("pid")
    ap.add_argument("--tier", default=os.environ.get("VERIF_TIER", "quick"))
    ap.add_argument("--replay")
    a = ap.parse_args()
    if a.pid not in checks:
        log("unknown property %s" % a.pid)
        return 2
    ctx = Ctx(a.pid, a.tier, vlib.seed_from_env(), a.replay)
    chk = checks[a.pid]()
    try:
        if a.replay:
            return chk.replay(ctx, a.replay)
        rc = chk.run(ctx)
        log("%s tier=%s seed=%d: %s (%.1fs)" % (a.pid, a.tier, ctx.seed, "OK" if rc == 0 else "VIOLATION", time.time() - ctx.t0))
        return rc
    finally:
        ctx.cleanup()


def _replay(self, ctx, path):
    """Re-run the case recorded in a replay file on model and implementation."""
    import re as _re
    m = _re.search(r"_stage_(C\d\d)_", os.path.basename(path))
    if m:
        # recorded by a sibling stage: its case language is that of the sibling check
        for sid, scls in self.sibling_stages():
            if sid == m.group(1):
                sub = scls()
                sub.pid = self.pid
                return sub.replay(ctx, path)
    case = None
    for line in open(path):
        if line.startswith("case: "):
            case = line[len("case: "):].rstrip("\n")
            break
    if case is None:
        log(open(path).read())
        log("(no replayable case in this file: it names a broken proof/correspondence)")
        return 1
    ok, blog = self.build(ctx)
    if not ok:
        log(blog)
        return 2
    st = self.correspond(ctx, [case])
    log("case: " + case)
    log(self.describe(case))
    log("model: %s" % (st["mres"][0][0],))
    log("impl : %s" % (st["ires"][0][0],))
    if st["ires"][0][1]:
        log("impl crash/sanitizer:\n" + st["ires"][0][1])
    if st["mon"]:
        log("monitor on impl trace: " + st["mon"][0])
    bad = bool(st["crashes"] or st["monfail"] or st["div"])
    log("REPLAY: %s" % ("property fails / diverges on this case" if bad else "case passes"))
    return 1 if bad else 0


LineCheck.replay = _replay
