"""Base class of the multi-threaded checks: the real library under the baton scheduler (harness/ivmt.c)
produces a log per scenario; the extracted Coq acceptor model + monitor judges it (see docs/MT_GUIDE.md)."""
import hashlib
import re
import os

import vlib
import runner
from framework import LineCheck


class MTCheck(LineCheck):
    extract_v = None          # e.g. "Extract/ExtractEventMT.v"
    model_ml = None           # e.g. "eventmt_model.ml"
    driver_in = None          # e.g. "eventmt_drv.ml.in"
    open_module = None        # e.g. "Eventmt_model"
    corr_name = "acceptance of the implementation's synchronisation/API log (real threads under the baton scheduler) by the Coq transition-system model"

    def build(self, ctx):
        d = os.path.join(ctx.work, "b")
        ok, out = vlib.coq_extract(self.extract_v, d)
        if not ok:
            return False, out
        drv = self.driver_in.replace(".ml.in", ".ml")
        with open(os.path.join(d, drv), "w") as f:
            f.write("open %s\n" % self.open_module)
            f.write(open(os.path.join(vlib.VERIF, "ocaml", "zutil.ml.in")).read())
            f.write(open(os.path.join(vlib.VERIF, "ocaml", self.driver_in)).read())
        ok, out2 = vlib.ocaml_build(d, [self.model_ml, drv], "mt_model_run")
        if not ok:
            return False, out + out2
        ok, out3 = vlib.cc_build(d, "ivmt", ["ivmt.c", "vk.c", "mt.c"], vlib.LIB_SRCS, wraps=vlib.MT_WRAPS)
        self.d = d
        return ok, out + out2 + out3

    def impl_cmd(self, ctx):
        return [os.path.join(self.d, "ivmt")]

    def monitor_cmd(self, ctx):
        return [os.path.join(self.d, "mt_model_run"), "mon"]

    def correspond(self, ctx, cases):
        env = dict(runner.ASAN_ENV)
        ires = runner.run_cases_sharded(self.impl_cmd(ctx), cases, timeout=self.timeout(ctx), env=env)
        impl_lines = [r[0] for r in ires]
        mon = runner.run_monitor(self.monitor_cmd(ctx), cases, impl_lines, ctx.work)
        div, crashes, monfail = [], [], []
        nontriv = set()
        for idx, c in enumerate(cases):
            io, ierr = ires[idx]
            v = mon[idx]
            if ierr is not None or io is None:
                crashes.append((idx, ierr or "no output"))
                continue
            if " | CRASH" in io or "OVERFLOW" in io.rsplit("|", 1)[-1]:
                crashes.append((idx, io.rsplit(" | ", 1)[-1]))
            elif v.startswith("REJECT"):
                div.append((idx, v))
            elif not v.startswith("OK"):
                monfail.append((idx, v))
            else:
                # harness rules of the virtual kernel (vk.c), traced as "X ..." segments: e.g. close of a descriptor that is
                # not open (double close).  The log parsers drop segments they do not know, so they are judged here.
                xs = [seg for seg in io.split(" | ") if re.match(r"(\d+:)?X ", seg)]
                if xs:
                    monfail.append((idx, "harness rule violated by the implementation: " + xs[0]))
            if self.nontrivial(c, io):
                nontriv.add(hashlib.sha1(c.encode()).hexdigest())
        # mres: the verdict of the acceptor stands in for "model output"
        return {"n": len(cases), "div": div, "crashes": crashes, "monfail": monfail, "nontrivial": len(nontriv),
                "mres": [(m, None) for m in mon], "ires": ires, "mon": mon}

    def describe(self, case):
        return {"scenario": case}

    def signature(self, case, why):
        return "mt:" + ("crash" if "CRASH" in why or "sanitizer" in why else "monitor")
