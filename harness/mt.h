/*
 * mt -- baton scheduler for the multi-threaded correspondence harness (ivmt).
 * Real pthreads, but only the thread holding the baton runs; the baton moves
 * only at yield points: the interposed synchronisation calls (mutex / spin
 * lock and unlock, thread create / join / exit), blocking kernel waits, and
 * explicit yields of the scenario interpreter.  At every yield point the next
 * character of the scenario's schedule string names the thread that runs next
 * (if it is not runnable, or the schedule is exhausted: the current thread if
 * runnable, else the lowest-numbered runnable thread).  When every thread is
 * blocked the virtual clock jumps to the earliest wait deadline; when there is
 * none the run ends in quiescence.
 */
#ifndef MT_H
#define MT_H

#define MT_MAXTHR	16

extern const char *mt_schedule;
extern int mt_fork_fail_at;	/* scenario option Xforkfail=<k>: the k-th fork() fails with EAGAIN */		/* schedule string (chars 0-9a-f), may be NULL */
extern int mt_active;			/* baton scheduling in force */
extern int mt_log_idle;			/* log "Iq <deadline>" whenever every thread is blocked and virtual time has to pass */

int mt_self(void);			/* index of the calling thread */
void mt_init(void);			/* called once by the main thread (index 0) */
void mt_yield(void);			/* explicit yield point */
int mt_spawn(void *(*fn)(void *), void *arg);	/* harness-created thread; returns its index */
void mt_join_all(void);			/* main thread: wait until every other thread has finished */
void mt_set_loop_state(void *st);	/* the calling thread's struct iv_state (for lock classification) */
void *mt_loop_state(int thr);
int mt_finished(int thr);

/* used by vk.c: block the calling thread in a kernel wait until its epoll/poll set may be ready
   or the absolute deadline (ns, -1 = none) is reached.  Returns after the thread was rescheduled. */
void mt_block_in_wait_cb(int (*ready)(void *), void *ctx, long long deadline);

/* virtual signals */
void mt_raise(int sig, int thr);	/* make sig pending for thread thr (-1: process-wide, first thread that can take it) */


/* virtual child processes */
int mt_new_child(void);
int mt_child_status(int pid, int status);	/* 1 = queued (SIGCHLD raised), 0 = dropped (unknown / reaped / queue full) */
void mt_as_child(void (*fn)(void *), void *arg);
int mt_sig_has_handler(int sig);
void mt_deliver_now(int sig);		/* the calling thread receives sig now (Sd/Sx logged) */
int mt_child_pending(int only_dead);	/* children with a queued (terminating) status change not yet reaped */
int mt_child_reaped(int pid);		/* termination already returned by wait4 */
int mt_child_has_pending(int pid);	/* unreaped child with a queued status change */
extern int (*mt_reap_hold)(int pid);	/* when set and returning 1, wait4 does not report changes of this child yet */
extern int mt_chld_thr;			/* thread that receives the SIGCHLD of mt_child_status (-1: default choice) */
extern void (*mt_fork_hook)(int pid);	/* called in the parent right after a virtual fork (Fk logged) */
extern void (*mt_kill_hook)(int pid, int sig);	/* called for every kill() that reached a live (unreaped) child */

#endif
