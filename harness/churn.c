/*
 * churn -- thread churn / init-use-deinit cycles on the REAL kernel with real threads, for the C18 check
 * ("after a thread's loop is deinitialised, or a thread that used the library exits, everything acquired for
 * that thread has been released, so repeated init/use/deinit cycles and thread churn do not grow the process").
 * Built with ASan/LSan.  Three batches of short-lived threads; every thread initialises a loop, uses one object
 * of every kind (descriptor, timer, task, iv_event, iv_event_raw, optionally a work pool with its worker threads
 * and an iv_thread child), runs iv_main until everything has unregistered itself, frees the objects, and ends in
 * one of three ways: iv_deinit + return, return WITHOUT iv_deinit (the TLS destructor must release the loop),
 * pthread_exit without iv_deinit.  The main thread itself also runs init/use/deinit cycles.
 * After every batch: number of open descriptors and number of live heap bytes.  The first batch warms up
 * process-wide state; the report is
 *     CHURN fds <base> <b1> <b2> <b3> heap <b1> <b2> <b3> threads <n>
 * and the caller demands fds equal to the baseline and no heap growth from batch 2 to batch 3.
 * The poll method is selected by the caller through IV_EXCLUDE_POLL_METHOD.
 *
 * usage: churn <seed> <threads per batch>
 */
#ifndef _GNU_SOURCE
#define _GNU_SOURCE
#endif
#include <dirent.h>
#include <pthread.h>
#include <stdio.h>
#include <stdlib.h>
#include <string.h>
#include <unistd.h>
#include <iv.h>
#include <iv_event.h>
#include <iv_event_raw.h>
#include <iv_thread.h>
#include <iv_work.h>

/* provided by the ASan run time (sanitizer/allocator_interface.h) */
extern size_t __sanitizer_get_current_allocated_bytes(void);

struct job {
	unsigned		seed;
	int			ending;		/* 0 deinit+return, 1 return, 2 pthread_exit */
	int			use_pool;
	int			use_child;
	int			pfd[2];
	struct iv_fd		*fd;
	struct iv_timer		*tm;
	struct iv_task		*task;
	struct iv_event		*ev;
	struct iv_event_raw	*raw;
	struct iv_work_pool	*pool;
	struct iv_work_item	*item;
	int			fired;
	int			npend;		/* far-future timers still registered at deinit / thread exit */
	struct iv_timer		*pend;
};

static int count_fds(void)
{
	DIR *d = opendir("/proc/self/fd");
	struct dirent *e;
	int n = 0;

	if (d == NULL)
		return -1;
	while ((e = readdir(d)) != NULL)
		if (e->d_name[0] != '.')
			n++;
	closedir(d);
	return n - 1;		/* the directory stream itself */
}

static int count_threads(void)
{
	DIR *d = opendir("/proc/self/task");
	struct dirent *e;
	int n = 0;

	if (d == NULL)
		return -1;
	while ((e = readdir(d)) != NULL)
		if (e->d_name[0] != '.')
			n++;
	closedir(d);
	return n;
}

/* with timers left pending the loop never becomes empty: leave iv_main through iv_quit once everything else has fired */
static void maybe_quit(struct job *j)
{
	if (j->npend && j->fired == 5)
		iv_quit();
}

static void never(void *cookie)
{
	(void)cookie;
	abort();
}

static void got_fd(void *cookie)
{
	struct job *j = cookie;
	char c;

	if (read(j->pfd[0], &c, 1) < 0)
		;
	iv_fd_unregister(j->fd);
	j->fired++;
	maybe_quit(j);
}

static void got_timer(void *cookie)
{
	struct job *j = cookie;

	j->fired++;
	maybe_quit(j);
}

static void got_task(void *cookie)
{
	struct job *j = cookie;

	j->fired++;
	iv_event_post(j->ev);
	iv_event_raw_post(j->raw);
	maybe_quit(j);
}

static void got_ev(void *cookie)
{
	struct job *j = cookie;

	iv_event_unregister(j->ev);
	j->fired++;
	maybe_quit(j);
}

static void got_raw(void *cookie)
{
	struct job *j = cookie;

	iv_event_raw_unregister(j->raw);
	j->fired++;
	maybe_quit(j);
}

static void work_fn(void *cookie)
{
	(void)cookie;
}

static void work_done(void *cookie)
{
	struct job *j = cookie;

	j->fired++;
	iv_work_pool_put(j->pool);
}

static void child_fn(void *cookie)
{
	(void)cookie;
}

/* thread creation that fails (EAGAIN: out of threads / address space): linked with -Wl,--wrap=pthread_create; the next
   pthread_create of THIS thread fails once when the flag is set.  A failed iv_thread_create must leave nothing behind:
   no record on the caller's list of children (the next create / the list walk / the tear-down at thread exit would
   touch it: ASan), no leaked name or event (LSan / heap growth), no descriptor. */
static __thread int fail_next_create;
int __real_pthread_create(pthread_t *, const pthread_attr_t *, void *(*)(void *), void *);
int __wrap_pthread_create(pthread_t *t, const pthread_attr_t *a, void *(*fn)(void *), void *arg)
{
	if (fail_next_create) {
		fail_next_create = 0;
		return 11;	/* EAGAIN */
	}
	return __real_pthread_create(t, a, fn, arg);
}

static void failing_child_create(void)
{
	int r;

	fail_next_create = 1;
	r = iv_thread_create("churn-nochild", child_fn, NULL);
	if (r >= 0 || fail_next_create) {
		printf("CHURN-CREATE-FAILURE-NOT-REPORTED r=%d\n", r);
		fflush(stdout);
		abort();
	}
}

static void use_loop(struct job *j)
{
	if (pipe(j->pfd) < 0)
		abort();
	if (write(j->pfd[1], "x", 1) < 0)
		;

	j->fd = malloc(sizeof(*j->fd));
	IV_FD_INIT(j->fd);
	j->fd->fd = j->pfd[0];
	j->fd->cookie = j;
	j->fd->handler_in = got_fd;
	iv_fd_register(j->fd);

	j->tm = malloc(sizeof(*j->tm));
	IV_TIMER_INIT(j->tm);
	j->tm->cookie = j;
	j->tm->handler = got_timer;
	iv_validate_now();
	j->tm->expires = iv_now;
	j->tm->expires.tv_nsec += 1000000;
	if (j->tm->expires.tv_nsec >= 1000000000L) {
		j->tm->expires.tv_nsec -= 1000000000L;
		j->tm->expires.tv_sec++;
	}
	iv_timer_register(j->tm);

	j->ev = malloc(sizeof(*j->ev));
	IV_EVENT_INIT(j->ev);
	j->ev->cookie = j;
	j->ev->handler = got_ev;
	if (iv_event_register(j->ev) < 0)
		abort();

	j->raw = malloc(sizeof(*j->raw));
	IV_EVENT_RAW_INIT(j->raw);
	j->raw->cookie = j;
	j->raw->handler = got_raw;
	if (iv_event_raw_register(j->raw) < 0)
		abort();

	j->task = malloc(sizeof(*j->task));
	IV_TASK_INIT(j->task);
	j->task->cookie = j;
	j->task->handler = got_task;
	iv_task_register(j->task);

	if (j->use_pool) {
		j->pool = malloc(sizeof(*j->pool));
		IV_WORK_POOL_INIT(j->pool);
		j->pool->max_threads = 2;
		j->pool->cookie = NULL;
		j->pool->thread_start = NULL;
		j->pool->thread_stop = NULL;
		if (iv_work_pool_create(j->pool) < 0)
			abort();
		j->item = malloc(sizeof(*j->item));
		IV_WORK_ITEM_INIT(j->item);
		j->item->cookie = j;
		j->item->work = work_fn;
		j->item->completion = work_done;
		iv_work_pool_submit_work(j->pool, j->item);
	}
	if (j->use_child) {
		/* a failed creation before and after a successful one */
		if (j->npend & 1)
			failing_child_create();
		iv_thread_create("churn-child", child_fn, NULL);
		failing_child_create();
		if (j->npend & 2)
			iv_thread_create("churn-child2", child_fn, NULL);
	}

	if (j->npend) {
		int i;

		j->pend = calloc(j->npend, sizeof(*j->pend));
		for (i = 0; i < j->npend; i++) {
			IV_TIMER_INIT(&j->pend[i]);
			j->pend[i].handler = never;
			j->pend[i].expires = iv_now;
			j->pend[i].expires.tv_sec += 3600 + i;
			iv_timer_register(&j->pend[i]);
		}
	}

	iv_main();

	if (j->fired != 5 + (j->use_pool ? 1 : 0)) {
		printf("CHURN-INCOMPLETE fired=%d\n", j->fired);
		fflush(stdout);
		abort();
	}
	close(j->pfd[0]);
	close(j->pfd[1]);
	free(j->fd);
	free(j->tm);
	free(j->task);
	free(j->ev);
	free(j->raw);
	if (j->use_pool) {
		free(j->pool);
		free(j->item);
	}
}

static void *thread_main(void *arg)
{
	struct job *j = arg;

	iv_init();
	use_loop(j);
	if (j->ending == 0) {
		iv_deinit();
	} else if (j->ending == 2) {
		pthread_exit(NULL);
	}
	return NULL;
}

static void batch(unsigned *seed, int n)
{
	enum { PAR = 4 };
	int done = 0;

	while (done < n) {
		pthread_t t[PAR];
		struct job j[PAR];
		int k, m = n - done < PAR ? n - done : PAR;

		for (k = 0; k < m; k++) {
			memset(&j[k], 0, sizeof(j[k]));
			j[k].seed = rand_r(seed);
			j[k].ending = rand_r(seed) % 3;
			j[k].use_pool = rand_r(seed) % 3 == 0;
			j[k].use_child = rand_r(seed) % 3 == 0;
			if (rand_r(seed) % 3 == 0) {
				/* leave 130 .. 1000 far-future timers registered (radix tree of two or three levels) when the
				   loop is deinitialised or the thread exits; the loop is left through iv_quit */
				j[k].npend = 130 + rand_r(seed) % 871;
				j[k].use_pool = 0;
				j[k].use_child = 0;
			}
			if (pthread_create(&t[k], NULL, thread_main, &j[k]))
				abort();
		}
		for (k = 0; k < m; k++) {
			pthread_join(t[k], NULL);
			free(j[k].pend);
		}
		done += m;
		/* init/use/deinit cycle in the main thread as well */
		{
			struct job mj;

			memset(&mj, 0, sizeof(mj));
			mj.use_pool = rand_r(seed) % 2;
			if (rand_r(seed) % 3 == 0) {
				mj.npend = 130 + rand_r(seed) % 871;
				mj.use_pool = 0;
			}
			iv_init();
			use_loop(&mj);
			iv_deinit();
			free(mj.pend);
		}
	}
}

int main(int argc, char **argv)
{
	unsigned seed = argc > 1 ? atoi(argv[1]) : 1;
	int n = argc > 2 ? atoi(argv[2]) : 40;
	int fds[4];
	size_t heap[4];
	int b;
	int thr0 = count_threads();

	alarm(120);
	/* documented precondition: the first iv_init happens before other threads call into the library */
	fds[0] = count_fds();
	iv_init();
	iv_deinit();
	heap[0] = __sanitizer_get_current_allocated_bytes();
	for (b = 1; b <= 3; b++) {
		batch(&seed, n);
		/* detached worker / child threads finish asynchronously after their loops' owners were told: wait
		   until the kernel reports no thread besides the ones that existed at the start */
		{
			int w;

			for (w = 0; w < 20000 && count_threads() > thr0; w++)
				usleep(1000);
			if (count_threads() > thr0)
				printf("CHURN-THREADS-LEFT %d\n", count_threads() - thr0);
		}
		fds[b] = count_fds();
		heap[b] = __sanitizer_get_current_allocated_bytes();
	}
	printf("CHURN method %s fds %d %d %d %d heap %zu %zu %zu threads %d\n", iv_poll_method_name(), fds[0], fds[1], fds[2], fds[3], heap[1], heap[2], heap[3], n);
	return 0;
}
