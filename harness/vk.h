/*
 * vk -- deterministic in-process virtual kernel for the ivykis correspondence
 * harness (see DESIGN.md section 3.3 and Appendix B).  The library objects
 * are linked with -Wl,--wrap=<sym> so that every system call ivykis makes on
 * a virtual descriptor lands here.  Core/Kernel.v is the Coq twin of this
 * file: both must implement exactly the same semantics.
 */
#ifndef VK_H
#define VK_H

#include <stdint.h>
#include <stdio.h>

#define VK_IN	1
#define VK_OUT	2
#define VK_HUP	4
#define VK_ERR	8

enum vk_kind {
	VK_FREE = 0,
	VK_SCRIPTED,		/* user descriptor whose conditions the scenario sets */
	VK_EVENTFD,
	VK_PIPE_R,
	VK_PIPE_W,
	VK_TIMERFD,
	VK_EPOLL,
};

#define VK_USER_BASE	100	/* scripted descriptor i has number 100 + i */
#define VK_DYN_BASE	1000	/* descriptors created by the library: 1000, 1001, ... (never reused) */
#define VK_MAXFD	1400

struct vk_fd {
	int		kind;
	int		closed;		/* scripted: closed/bad descriptor (EBADF / POLLNVAL) */
	int		cond;		/* scripted: ground-truth condition bits */
	long long	cnt;		/* eventfd counter / pipe fill (shared on the read end) */
	int		peer;		/* pipe: other end */
	int		peer_open;	/* pipe: other end still open */
	long long	deadline;	/* timerfd: absolute ns, 0 = disarmed */
	int		fired;		/* timerfd: readable */
	int		cloexec, nonblock;
	int		epoll_owner;	/* VK_EPOLL: index into eps[] */
};

/* faults (persistent from the first call; the eventfd faults from the efd_ok-th creation on) */
struct vk_faults {
	int	no_pwait2;	/* epoll_pwait2 -> ENOSYS */
	int	perm_pwait2;	/* epoll_pwait2 -> EPERM */
	int	no_timerfd;	/* timerfd_create -> ENOSYS */
	int	no_ppoll;	/* ppoll -> ENOSYS */
	int	no_eventfd2;	/* eventfd2 -> ENOSYS */
	int	no_eventfd;	/* eventfd2 and eventfd -> ENOSYS */
	int	no_create1;	/* epoll_create1 -> ENOSYS */
	int	emfile_eventfd;	/* eventfd2/eventfd -> EMFILE, pipe -> EMFILE (descriptor exhaustion) */
	int	eintr_wait[8];	/* the k-th main wait (1-based) fails with EINTR */
	int	n_eintr;
	int	eintr_ctl;	/* the k-th epoll_ctl fails once with EINTR (0 = never) */
	int	efd_ok;		/* no_eventfd2 / no_eventfd take effect once this many eventfds were created (0 = from the first call) */
};

extern struct vk_faults vk_faults;
extern long long vk_clock;		/* virtual CLOCK_MONOTONIC, ns */
extern int vk_wait_limit;		/* stop the run after this many main waits */
extern int vk_nwait;			/* main waits so far */

/* hooks into the scenario interpreter */
void vk_trace(const char *fmt, ...) __attribute__((format(printf, 1, 2)));
void vk_before_wait(int nwait);		/* applies the scenario's external actions for this wait */
int vk_rotation(int nwait);		/* rotation of the ready order for this wait */
int vk_is_main_pollfds(const void *pfds);	/* poll(): is this the loop's main array? */
void vk_end(const char *why) __attribute__((noreturn));

extern void (*vk_block_hook)(int (*ready)(void *), void *ctx, long long deadline);
extern void (*vk_yield_hook)(void);
extern int vk_yield_after_kick;	/* scenario option Xkickyield (multi-threaded runs) */

struct vk_fd *vk_get(int fd);
void vk_user_fd(int i);			/* (re)create scripted descriptor 100+i, open, no conditions */
int vk_cond(int fd);			/* current condition bits of any virtual descriptor */
int vk_is_virtual(int fd);

/* bit 0 = O_NONBLOCK, bit 1 = FD_CLOEXEC, -1 = not an open virtual descriptor */
int vk_fd_flags(int fd);

#endif
