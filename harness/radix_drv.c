/*
 * radix_drv -- timer_drv plus observation of the radix tree itself (second
 * correspondence stage of C05, against the extracted Timer/RadixModel.v):
 * after every operation it also prints
 *   L=<nodes reachable from timer_root, first_leaf included, every non-NULL child counted>
 *   A=<calloc calls of sizeof(struct iv_timer_ratnode) so far in this case>
 *   X=<free calls on such blocks so far in this case>
 * (calloc/free are interposed with -Wl,--wrap), and understands the extra final token
 *   Z    iv_timer_deinit(st) on the tree as it is (populated or not); prints "Z d= L= A= X="
 *   T    (first token) marks a case that only this stage runs; ignored here
 * The rest is timer_drv:
 *
 * timer_drv -- drives the timer store of /repo/src/iv_timer.c for the C05
 * correspondence check (iv_timer_register / iv_timer_unregister /
 * iv_run_timers with handler scripts), dumping the heap through the real
 * radix tree after every operation.
 *
 * stdin: one case per line, space separated tokens:
 *   S<id>=<act>,<act>,..   handler script of timer <id>   (act: r<id>@<exp> | u<id>)
 *   Q                      quiet: per-op output without the full heap dump
 *   r<id>@<exp>            if !registered: expires = exp ns; iv_timer_register   (rc 1 if skipped)
 *   u<id>                  if registered: iv_timer_unregister                      (rc 1 if skipped)
 *   x<clock>               st->time = clock; iv_run_timers(st)
 *   D                      full dump (also in quiet mode)
 * stdout: one line per case, per op one segment joined by " | ":
 *   rc=<rc> n=<num_timers> d=<rat_depth> o=<numobjs> [H <id at slot 1..n>] [I <id>:<index> ...] [R <root id>] [F <fired ids>]
 */
#include <stdio.h>
#include <unistd.h>
#include <stdlib.h>
#include <string.h>
#include <iv.h>
#include "iv_private.h"

#define MAXID 70000
#define MAXNODES 8192

static void *ratnodes[MAXNODES];
static int nratnodes;
static long n_alloc;
static long n_free;

void *__real_calloc(size_t nmemb, size_t size);
void __real_free(void *p);

void *__wrap_calloc(size_t nmemb, size_t size)
{
	void *p = __real_calloc(nmemb, size);

	if (p != NULL && nmemb == 1 && size == sizeof(struct iv_timer_ratnode)) {
		if (nratnodes >= MAXNODES) {
			fprintf(stderr, "radix_drv: too many rat nodes\n");
			exit(2);
		}
		ratnodes[nratnodes++] = p;
		n_alloc++;
	}
	return p;
}

void __wrap_free(void *p)
{
	int i;

	for (i = nratnodes - 1; p != NULL && i >= 0; i--) {
		if (ratnodes[i] == p) {
			ratnodes[i] = ratnodes[--nratnodes];
			n_free++;
			break;
		}
	}
	__real_free(p);
}
#define MAXACT 8

struct act {
	int		reg;
	int		id;
	long long	exp;
};

struct tmr {
	struct iv_timer	t;
	int		id;
	int		used;
	int		nacts;
	struct act	acts[MAXACT];
};

static struct tmr *tm[MAXID];
static int known[MAXID];
static int nknown;
static int fired[MAXID];
static int nfired;

static struct iv_state *st;

static void handler(void *cookie);

static struct tmr *get(int id)
{
	if (id <= 0 || id >= MAXID) {
		fprintf(stderr, "bad id %d\n", id);
		exit(2);
	}
	if (tm[id] == NULL) {
		tm[id] = malloc(sizeof(struct tmr));
		memset(tm[id], 0xaa, sizeof(struct tmr));
		IV_TIMER_INIT(&tm[id]->t);
		tm[id]->t.cookie = tm[id];
		tm[id]->t.handler = handler;
		tm[id]->id = id;
		tm[id]->used = 0;
		tm[id]->nacts = 0;
	}
	if (!tm[id]->used) {
		tm[id]->used = 1;
		known[nknown++] = id;
	}
	return tm[id];
}

static int do_act(int reg, int id, long long exp)
{
	struct tmr *x = get(id);

	if (reg) {
		if (iv_timer_registered(&x->t))
			return 1;
		x->t.expires.tv_sec = exp / 1000000000LL;
		x->t.expires.tv_nsec = exp % 1000000000LL;
		iv_timer_register(&x->t);
		return 0;
	}
	if (!iv_timer_registered(&x->t))
		return 1;
	iv_timer_unregister(&x->t);
	return 0;
}

static void handler(void *cookie)
{
	struct tmr *x = cookie;
	int i;

	fired[nfired++] = x->id;
	for (i = 0; i < x->nacts; i++)
		do_act(x->acts[i].reg, x->acts[i].id, x->acts[i].exp);
}

/* walk the real radix tree (read only; never allocates) */
static struct iv_timer_ *slot(int index)
{
	struct iv_timer_ratnode *r = st->ratnode.timer_root;
	int i;

	if ((st->rat_depth + 1) * IV_TIMER_SPLIT_BITS < 8 * (int)sizeof(index) &&
	    index >> ((st->rat_depth + 1) * IV_TIMER_SPLIT_BITS))
		return NULL;
	for (i = st->rat_depth; i > 0; i--) {
		int bits = (index >> (i * IV_TIMER_SPLIT_BITS)) & (IV_TIMER_SPLIT_NODES - 1);

		if (r->child[bits] == NULL)
			return NULL;
		r = r->child[bits];
	}
	return r->child[index & (IV_TIMER_SPLIT_NODES - 1)];
}

/* every non-NULL child of every interior node is counted (not only the prefix before the first NULL) */
static long count_from(struct iv_timer_ratnode *node, int depth)
{
	long n = 1;
	int i;

	if (depth <= 0)
		return 1;
	for (i = 0; i < IV_TIMER_SPLIT_NODES; i++) {
		if (node->child[i] != NULL)
			n += count_from(node->child[i], depth - 1);
	}
	return n;
}

static long count_nodes(void)
{
	if (st->ratnode.timer_root == NULL)
		return 0;
	return count_from(st->ratnode.timer_root, st->rat_depth);
}

static int id_of(struct iv_timer_ *t)
{
	if (t == NULL)
		return 0;
	return ((struct tmr *)t->cookie)->id;
}

static int cmp_int(const void *a, const void *b)
{
	return *(const int *)a - *(const int *)b;
}

static void parse_act(const char *s, struct act *a)
{
	a->reg = (s[0] == 'r');
	a->id = atoi(s + 1);
	a->exp = 0;
	if (a->reg) {
		const char *at = strchr(s, '@');
		a->exp = at ? atoll(at + 1) : 0;
	}
}

static void report(int rc, int full, int with_f)
{
	int i;

	printf("rc=%d n=%d d=%d o=%d L=%ld A=%ld X=%ld", rc, st->num_timers, st->rat_depth, st->numobjs,
	       count_nodes(), n_alloc, n_free);
	if (full) {
		printf(" H");
		for (i = 1; i <= st->num_timers; i++)
			printf(" %d", id_of(slot(i)));
		printf(" I");
		qsort(known, nknown, sizeof(int), cmp_int);
		for (i = 0; i < nknown; i++)
			printf(" %d:%d", known[i], ((struct iv_timer_ *)&tm[known[i]]->t)->index);
	} else {
		printf(" R %d", st->num_timers ? id_of(slot(1)) : 0);
	}
	if (with_f) {
		printf(" F");
		for (i = 0; i < nfired; i++)
			printf(" %d", fired[i]);
	}
}

int main(void)
{
	char *line = NULL;
	size_t cap = 0;

	iv_init();
	st = iv_get_state();

	while (getline(&line, &cap, stdin) > 0) {
		char *o;
		char *save;
		int first = 1;
		int quiet = 0;
		int i;

		/* watchdog per case: a run-away loop in the library must not stall the whole check (the runner
		   records the unanswered case as crashed and resumes after it) */
		alarm(30);

		line[strcspn(line, "\n")] = 0;
		nknown = 0;
		n_alloc = 0;
		n_free = 0;

		for (o = strtok_r(line, " ", &save); o != NULL; o = strtok_r(NULL, " ", &save)) {
			int rc = 0;
			int with_f = 0;
			int full;

			if (o[0] == 'S') {
				struct tmr *x = get(atoi(o + 1));
				char *eq = strchr(o, '=');
				char *a;
				char *asave;

				x->nacts = 0;
				for (a = strtok_r(eq + 1, ",", &asave); a != NULL && x->nacts < MAXACT;
				     a = strtok_r(NULL, ",", &asave))
					parse_act(a, &x->acts[x->nacts++]);
				for (i = 0; i < x->nacts; i++)
					get(x->acts[i].id);
				continue;
			}
			if (o[0] == 'Q') {
				quiet = 1;
				continue;
			}
			if (o[0] == 'T')	/* marker: case for the tree stage only */
				continue;
			if (o[0] == 'Z') {
				int n = st->num_timers;

				iv_timer_deinit(st);
				if (!first)
					printf(" | ");
				first = 0;
				printf("Z d=%d L=%ld A=%ld X=%ld", st->rat_depth, count_nodes(), n_alloc, n_free);
				/* the store is gone: bring the state back to the one after iv_init */
				memset(&st->ratnode, 0, sizeof(st->ratnode));
				iv_timer_init(st);
				st->numobjs -= n;
				st->num_timers = 0;
				for (i = 0; i < nknown; i++)
					IV_TIMER_INIT(&tm[known[i]]->t);
				break;
			}
			full = !quiet;
			if (o[0] == 'r' || o[0] == 'u') {
				struct act a;

				parse_act(o, &a);
				rc = do_act(a.reg, a.id, a.exp);
			} else if (o[0] == 'x') {
				long long clock = atoll(o + 1);

				nfired = 0;
				st->time.tv_sec = clock / 1000000000LL;
				st->time.tv_nsec = clock % 1000000000LL;
				st->time_valid = 1;
				iv_run_timers(st);
				with_f = 1;
			} else if (o[0] == 'D') {
				full = 1;
			}
			if (!first)
				printf(" | ");
			first = 0;
			report(rc, full, with_f);
		}
		/* return to the empty state; objects are freed (and poisoned).  The case's output line is
		   completed only after the leak check, so that a leak is attributed to this case. */
		for (i = 0; i < nknown; i++) {
			struct tmr *x = tm[known[i]];

			if (iv_timer_registered(&x->t))
				iv_timer_unregister(&x->t);
			memset(x, 0xaa, sizeof(*x));
			free(x);
			tm[known[i]] = NULL;
		}
		if (st->num_timers != 0 || st->rat_depth != 0) {
			fprintf(stderr, "radix_drv: store not empty after cleanup (n=%d d=%d)\n",
				st->num_timers, st->rat_depth);
			exit(3);
		}
		if (n_alloc != n_free || nratnodes != 0) {
			fprintf(stderr, "radix_drv: %ld rat nodes allocated, %ld freed, %d still live with an empty store\n",
				n_alloc, n_free, nratnodes);
			exit(4);
		}
		printf("\n");
		fflush(stdout);
	}
	free(line);
	iv_deinit();
	return 0;
}
