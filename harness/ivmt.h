/* ivmt.h -- shared declarations of the multi-threaded scenario interpreter (ivmt.c) and its
   extension files (ivmt_sig.c: signals, child processes, popen). */
#ifndef IVMT_H
#define IVMT_H

#include <iv.h>
#include <iv_event.h>
#include <iv_event_raw.h>
#include <iv_work.h>
#include "iv_private.h"

#define NTHR	8
#define NOBJ	8
#define MAXSCR	8
#define MAXACT	24

extern char backend[8];

struct script {
	int	nlists;
	int	nact[MAXSCR];
	char	*act[MAXSCR][MAXACT];
	int	invocations;
};

struct cookie {
	int	thr;
	char	kind;
	int	id;
};

struct tctx {
	int			kind;		/* 0 unused, 1 loop, 2 plain */
	struct script		body;		/* L: set-up; P: the whole program */
	struct script		hs[128][NOBJ];	/* by key letter and object */
	struct iv_state		*st;
	struct iv_timer		*tm[NOBJ];
	struct iv_task		*tk[NOBJ];
	struct iv_event		*ev[NOBJ];
	struct iv_event_raw	*rw[NOBJ];
	struct cookie		ctm[NOBJ], ctk[NOBJ], cev[NOBJ], crw[NOBJ], cwk[NOBJ], cpl[NOBJ];
	volatile int		ev_reg[NOBJ], rw_reg[NOBJ];
	struct iv_work_pool	pool[NOBJ];
	int			pool_live[NOBJ];
	struct iv_work_item	item[NOBJ];
};

extern struct tctx tc[NTHR];

void run_script(struct tctx *c, struct script *s);
void do_action(struct tctx *c, const char *a);
int num(const char *s, const char **end);
int obj(int v);

/* extension hook: return 1 when the action was recognised (and handled or skipped by its guard) */
int ivmt_ext_action(struct tctx *c, const char *a);
/* extension hooks called when a loop thread has initialised its objects / is about to tear them down */
void ivmt_ext_loop_init(struct tctx *c, int k);
void ivmt_ext_loop_finish(struct tctx *c, int k);

#endif
