/*
 * free_shim.c -- lets the multi-threaded scenario interpreter (ivmt.c) run
 * FREE: real kernel, real time, real pthreads, no baton, no virtual kernel.
 * Used for the ThreadSanitizer observation of C14: the scenario programs run
 * with whatever interleaving the OS produces and TSan's happens-before
 * analysis reports unsynchronised conflicting accesses independently of the
 * timing observed.
 *
 * Free-mode options.  The `Z` section of a scenario is the baton schedule; there is no baton here, so in
 * this mode it carries options instead: `Z<opt>=<n>,<opt>=<n>`
 *   alarm=<s>   watchdog of the scenario process in seconds (ivmt.c arms 8 s; a program that has to keep
 *               a work pool idle for the library's 10 s idle timeout needs more)
 *   stall=<ms>  every thread created by the LIBRARY (pool threads, iv_thread helpers) sleeps <ms> before each
 *               pthread_mutex_lock.  This adds no synchronisation (TSan does not order anything by a
 *               sleep); it widens the window between "code that runs before a lock is taken" and the
 *               critical section from microseconds to <ms>, so that another thread's critical section
 *               can be placed inside it by an ordinary timer.  Needs -Wl,--wrap=pthread_mutex_lock.
 */
#define _GNU_SOURCE
#include <pthread.h>
#include <stdarg.h>
#include <stdio.h>
#include <stdlib.h>
#include <string.h>
#include <unistd.h>
#include "vk.h"
#include "mt.h"

struct vk_faults vk_faults;
long long vk_clock;
int vk_wait_limit;
int vk_nwait;
void (*vk_block_hook)(int (*ready)(void *), void *ctx, long long deadline);
void (*vk_yield_hook)(void);
int vk_yield_after_kick;
int mt_fork_fail_at;	/* scenario option of the baton scheduler (mt.c); unused in free-running programs */
const char *mt_schedule;
int mt_active;

static pthread_mutex_t reg = PTHREAD_MUTEX_INITIALIZER;
static pthread_t thr[MT_MAXTHR];
static int nthr = 1;
static __thread int my_idx = -1;
static void *loop_state[MT_MAXTHR];

int mt_self(void)
{
	return my_idx < 0 ? 15 : my_idx;	/* 15: a thread created by the library itself */
}

extern int ivmt_trace_off;

static int stall_ms;		/* written before any other thread exists */

static int opt_value(const char *opts, const char *name)
{
	const char *p = opts != NULL ? strstr(opts, name) : NULL;

	return p != NULL && p[strlen(name)] == '=' ? atoi(p + strlen(name) + 1) : 0;
}

void mt_init(void)
{
	ivmt_trace_off = 1;
	my_idx = 0;
	thr[0] = pthread_self();
	stall_ms = opt_value(mt_schedule, "stall");
	if (opt_value(mt_schedule, "alarm") > 0)
		alarm(opt_value(mt_schedule, "alarm"));
}

int __real_pthread_mutex_lock(pthread_mutex_t *m);

int __wrap_pthread_mutex_lock(pthread_mutex_t *m)
{
	if (stall_ms > 0 && my_idx < 0)
		usleep(1000 * stall_ms);
	return __real_pthread_mutex_lock(m);
}

void mt_yield(void)
{
	sched_yield();
}

struct start {
	void *(*fn)(void *);
	void *arg;
	int idx;
};

static void *tramp(void *_s)
{
	struct start *s = _s;
	void *(*fn)(void *) = s->fn;
	void *arg = s->arg;

	my_idx = s->idx;
	free(s);
	return fn(arg);
}

int mt_spawn(void *(*fn)(void *), void *arg)
{
	struct start *s = malloc(sizeof(*s));
	int idx;

	pthread_mutex_lock(&reg);
	idx = nthr++;
	pthread_mutex_unlock(&reg);
	s->fn = fn;
	s->arg = arg;
	s->idx = idx;
	pthread_create(&thr[idx], NULL, tramp, s);
	return idx;
}

void mt_join_all(void)
{
	int i, n;

	pthread_mutex_lock(&reg);
	n = nthr;
	pthread_mutex_unlock(&reg);
	for (i = 1; i < n; i++)
		pthread_join(thr[i], NULL);
}

void mt_set_loop_state(void *st)
{
	if (my_idx >= 0)
		loop_state[my_idx] = st;
}

void *mt_loop_state(int t)
{
	return loop_state[t];
}

int mt_finished(int t)
{
	(void)t;
	return 0;
}

void mt_block_in_wait_cb(int (*ready)(void *), void *ctx, long long deadline)
{
	(void)ready;
	(void)ctx;
	(void)deadline;
}

void mt_raise(int sig, int t)
{
	(void)sig;
	(void)t;
}

struct vk_fd *vk_get(int fd)
{
	(void)fd;
	return NULL;
}

void vk_user_fd(int i)
{
	(void)i;
}

int vk_cond(int fd)
{
	(void)fd;
	return 0;
}

int vk_is_virtual(int fd)
{
	(void)fd;
	return 0;
}
