/*
 * pump_drv -- drives the REAL /repo/src/iv_fd_pump.c for the C17 correspondence
 * check.  The pump's two descriptors are fake numbers (1000+2k / 1001+2k for
 * pump k) that never exist in the process; read/write/splice/ioctl/shutdown
 * on them are answered from the script of the current call through linker
 * interposition (-Wl,--wrap=...) and recorded, everything else is forwarded
 * to the real function.
 *
 * Transfer mode.  splice_available is a static of iv_fd_pump.c decided by
 * check_splice_available() in the first iv_fd_pump_init of the process.  Every
 * case runs in a forked child (fresh static state, fresh buffer cache, leak
 * check at exit), and the probe's splice call -- recognised by both of its
 * descriptors being real -- is answered -1/EAGAIN ("sp" cases: splice mode)
 * or -1/EINVAL ("rw" cases: read/write mode).
 *
 * Splice mode: iv_fd_pump.c splices from from_fd into a REAL pipe created by
 * grab_pipe() (pipe2 through syscall(), interposed to learn the descriptor
 * pair) and out of it into to_fd.  __wrap_splice emulates the kernel with the
 * real pipe as the store: splice-in write()s the scripted bytes into the
 * pipe's write end (clipped to min(len, 65536 - bytes currently in the pipe,
 * as told by FIONREAD on the real pipe)); splice-out read()s the accepted
 * number of bytes back from the pipe's read end and records them as the bytes
 * arriving at the peer.  So the data printed for the output side really went
 * through the descriptors iv_fd_pump.c passed.  The pipe ends are switched to
 * O_NONBLOCK and the pipe is enlarged (F_SETPIPE_SZ 1 MiB) so that the
 * emulation never blocks and page fragmentation never limits before the
 * modelled 65536-byte capacity does; a short write is reported as a marker.
 *
 * stdin: one case per line (format: see ocaml/pump_drv.ml.in).
 * stdout: one line per case, same format as the model driver.
 */
#include <stdio.h>
#include <stdlib.h>
#include <string.h>
#include <stdarg.h>
#include <stdint.h>
#include <errno.h>
#include <fcntl.h>
#include <unistd.h>
#include <sys/ioctl.h>
#include <sys/socket.h>
#include <sys/syscall.h>
#include <sys/wait.h>
#include <iv.h>
#include <iv_fd_pump.h>

#define NSLOTS		40
#define FAKE_BASE	1000
#define PIPE_CAP	65536
#define MAXANS		64
#define MAXTRACK	4096

ssize_t __real_read(int fd, void *buf, size_t count);
ssize_t __real_write(int fd, const void *buf, size_t count);
int __real_ioctl(int fd, unsigned long req, ...);
int __real_shutdown(int fd, int how);
int __real_close(int fd);
long __real_syscall(long nr, ...);
void *__real_malloc(size_t n);
void __real_free(void *p);

/* ---- per-case state ---- */
static int mode_sp;
static int in_api;
static int cur_k = -1;
static int fail_malloc;

struct ans {
	int		kind;		/* 'D' 'W' 'E' 'X' 'I' / 'A' 'W' 'X' 'I' 'Z' */
	unsigned char	*data;
	long		n;
};
static struct ans rds[MAXANS];
static int nrd, ird;
static struct ans wrs[MAXANS];
static int nwr, iwr;
static int fion_fail;
static int fion_val;

static void *bufs[MAXTRACK];		/* buffers malloc'ed inside the pump API */
static int nbufs;
static int pipes[MAXTRACK][2];		/* pipes created inside the pump API */
static int npipes;

/* output of the current case */
static char *obuf;
static size_t olen, ocap;

static void emit(const char *s, size_t n)
{
	if (olen + n + 1 > ocap) {
		ocap = (olen + n + 1) * 2 + 4096;
		obuf = realloc(obuf, ocap);
		if (obuf == NULL)
			_exit(4);
	}
	memcpy(obuf + olen, s, n);
	olen += n;
	obuf[olen] = 0;
}

static void emitf(const char *fmt, ...)
{
	char tmp[256];
	va_list ap;
	int n;

	va_start(ap, fmt);
	n = vsnprintf(tmp, sizeof(tmp), fmt, ap);
	va_end(ap);
	emit(tmp, n);
}

static void emit_hex(const unsigned char *p, long n)
{
	static const char hd[] = "0123456789abcdef";
	long i;

	if (olen + 2 * n + 1 > ocap) {
		ocap = (olen + 2 * n + 1) * 2 + 4096;
		obuf = realloc(obuf, ocap);
		if (obuf == NULL)
			_exit(4);
	}
	for (i = 0; i < n; i++) {
		obuf[olen++] = hd[p[i] >> 4];
		obuf[olen++] = hd[p[i] & 15];
	}
	obuf[olen] = 0;
}

static int is_fake(int fd)
{
	return fd >= FAKE_BASE && fd < FAKE_BASE + 2 * NSLOTS;
}

static int pipe_index_of(int fd, int end)
{
	int i;

	for (i = 0; i < npipes; i++) {
		if (pipes[i][end] == fd)
			return i;
	}
	return -1;
}

/* next non-consumed answer; an exhausted script means "would block" */
static struct ans *next_rd(void)
{
	static struct ans would = { 'W', NULL, 0 };

	if (ird < nrd)
		return &rds[ird++];
	return &would;
}

static struct ans *next_wr(void)
{
	static struct ans would = { 'W', NULL, 0 };

	if (iwr < nwr)
		return &wrs[iwr++];
	return &would;
}

static void check_fd(int fd, int want)
{
	if (cur_k < 0 || fd != want)
		emitf(" WRONGFD%d", fd);
}

/* the input side: returns the result of read()/splice-in for `space` bytes of room */
static long input_attempt(long req, long space, int is_splice, unsigned char **data)
{
	struct ans *a = next_rd();

	*data = NULL;
	emitf(" in%ld:", req);
	switch (a->kind) {
	case 'D': {
		long n = a->n < space ? a->n : space;

		if (is_splice && space <= 0) {
			emit("W", 1);
			errno = EAGAIN;
			return -1;
		}
		if (n <= 0) {
			emit("E", 1);
			return 0;
		}
		emit("G", 1);
		emit_hex(a->data, n);
		*data = a->data;
		return n;
	}
	case 'E':
		emit("E", 1);
		return 0;
	case 'X':
		emit("X", 1);
		errno = EIO;
		return -1;
	case 'I':
		emit("I", 1);
		errno = EINTR;
		return -1;
	default:
		emit("W", 1);
		errno = EAGAIN;
		return -1;
	}
}

/* the output side: how many of `count` bytes the sink takes (>0), or 0 / -1 */
static long output_attempt(long count)
{
	struct ans *a = next_wr();

	emitf(" out%ld:", count);
	switch (a->kind) {
	case 'A': {
		long n = a->n < 1 ? 1 : a->n;

		return n < count ? n : count;
	}
	case 'Z':
		emit("Z", 1);
		return 0;
	case 'X':
		emit("X", 1);
		errno = EPIPE;
		return -1;
	case 'I':
		emit("I", 1);
		errno = EINTR;
		return -1;
	default:
		emit("W", 1);
		errno = EAGAIN;
		return -1;
	}
}

ssize_t __wrap_read(int fd, void *buf, size_t count)
{
	unsigned char *data;
	long n;

	if (!is_fake(fd))
		return __real_read(fd, buf, count);

	check_fd(fd, FAKE_BASE + 2 * cur_k);
	if ((ssize_t)count < 0) {
		emitf(" in%ld:NEGATIVE", (long)count);
		errno = EFAULT;
		return -1;
	}
	n = input_attempt((long)count, (long)count, 0, &data);
	if (n > 0)
		memcpy(buf, data, n);
	return n;
}

ssize_t __wrap_write(int fd, const void *buf, size_t count)
{
	long n;

	if (!is_fake(fd))
		return __real_write(fd, buf, count);

	check_fd(fd, FAKE_BASE + 2 * cur_k + 1);
	n = output_attempt((long)count);
	if (n > 0) {
		emit("G", 1);
		emit_hex(buf, n);
	}
	return n;
}

ssize_t __wrap_splice(int fd_in, loff_t *off_in, int fd_out, loff_t *off_out, size_t len, unsigned int flags)
{
	(void)off_in;
	(void)off_out;

	if (!is_fake(fd_in) && !is_fake(fd_out)) {
		/* the probe of check_splice_available() */
		errno = mode_sp ? EAGAIN : EINVAL;
		return -1;
	}

	if (is_fake(fd_in)) {
		/* from_fd -> pipe write end */
		unsigned char *data;
		int pi = pipe_index_of(fd_out, 1);
		int inpipe = 0;
		long space;
		long n;

		check_fd(fd_in, FAKE_BASE + 2 * cur_k);
		if (pi < 0) {
			emitf(" in%ld:NOTAPIPE%d", (long)len, fd_out);
			errno = EBADF;
			return -1;
		}
		if (flags != SPLICE_F_NONBLOCK)
			emitf(" INFLAGS%u", flags);
		if (__real_ioctl(pipes[pi][0], FIONREAD, &inpipe) < 0)
			emitf(" PIPEIOCTL%d", errno);
		space = PIPE_CAP - inpipe;
		if ((long)len < space)
			space = (long)len;
		n = input_attempt((long)len, space, 1, &data);
		if (n > 0) {
			long w = __real_write(fd_out, data, n);

			if (w != n)
				emitf(" PIPESHORT%ld/%ld", w, n);
		}
		return n;
	} else {
		/* pipe read end -> to_fd */
		int pi = pipe_index_of(fd_in, 0);
		long n;

		check_fd(fd_out, FAKE_BASE + 2 * cur_k + 1);
		if (pi < 0) {
			emitf(" out%ld:NOTAPIPE%d", (long)len, fd_in);
			errno = EBADF;
			return -1;
		}
		if (flags != 0)
			emitf(" OUTFLAGS%u", flags);
		n = output_attempt((long)len);
		if (n > 0) {
			unsigned char *tmp = __real_malloc(n);
			long r = __real_read(fd_in, tmp, n);

			if (r <= 0) {
				/* the real kernel would block here forever */
				emitf("UNDERFLOW%ld/%ld", r, n);
				__real_free(tmp);
				errno = EAGAIN;
				return -1;
			}
			emit("G", 1);
			emit_hex(tmp, r);
			__real_free(tmp);
			return r;
		}
		return n;
	}
}

int __wrap_ioctl(int fd, unsigned long req, ...)
{
	va_list ap;
	void *arg;
	int ret = 0;

	va_start(ap, req);
	arg = va_arg(ap, void *);
	va_end(ap);

	if (!is_fake(fd))
		return __real_ioctl(fd, req, arg);

	check_fd(fd, FAKE_BASE + 2 * cur_k);
	if (req != FIONREAD) {
		emitf(" IOCTL%lx", req);
		errno = EINVAL;
		return -1;
	}
	if (fion_fail) {
		errno = ENOTTY;
		ret = -1;
	} else {
		*(int *)arg = fion_val;
	}
	emitf(" fion=%d", *(int *)arg);
	return ret;
}

int __wrap_shutdown(int fd, int how)
{
	if (!is_fake(fd))
		return __real_shutdown(fd, how);

	check_fd(fd, FAKE_BASE + 2 * cur_k + 1);
	if (how == SHUT_WR)
		emit(" sh", 3);
	else
		emitf(" sh?%d", how);
	return 0;
}

int __wrap_close(int fd)
{
	int i;

	if (is_fake(fd)) {
		emitf(" CLOSEFAKE%d", fd);
		return 0;
	}
	for (i = 0; i < npipes; i++) {
		if (pipes[i][0] == fd)
			pipes[i][0] = -1;
		if (pipes[i][1] == fd)
			pipes[i][1] = -1;
	}
	return __real_close(fd);
}

long __wrap_syscall(long nr, ...)
{
	va_list ap;
	long a[6];
	long ret;
	int i;

	va_start(ap, nr);
	for (i = 0; i < 6; i++)
		a[i] = va_arg(ap, long);
	va_end(ap);

	ret = __real_syscall(nr, a[0], a[1], a[2], a[3], a[4], a[5]);
#ifdef __NR_pipe2
	if (nr == __NR_pipe2 && ret == 0 && in_api && npipes < MAXTRACK) {
		int *fd = (int *)a[0];

		pipes[npipes][0] = fd[0];
		pipes[npipes][1] = fd[1];
		npipes++;
		fcntl(fd[1], F_SETPIPE_SZ, 1048576);
		fcntl(fd[0], F_SETFL, O_NONBLOCK);
		fcntl(fd[1], F_SETFL, O_NONBLOCK);
	}
#endif
	return ret;
}

void *__wrap_malloc(size_t n)
{
	void *p;

	if (!in_api)
		return __real_malloc(n);
	if (fail_malloc) {
		emit(" x", 2);
		errno = ENOMEM;
		return NULL;
	}
	p = __real_malloc(n);
	if (p != NULL && nbufs < MAXTRACK) {
		bufs[nbufs++] = p;
		emit(" a", 2);
	}
	return p;
}

void __wrap_free(void *p)
{
	int i;

	if (p != NULL) {
		for (i = 0; i < nbufs; i++) {
			if (bufs[i] == p) {
				bufs[i] = bufs[--nbufs];
				if (in_api)
					emit(" f", 2);
				break;
			}
		}
	}
	__real_free(p);
}

/* ---- the pumps ---- */
static struct iv_fd_pump *pumps[NSLOTS];
static int dead[NSLOTS];

static void set_bands(void *cookie, int pollin, int pollout)
{
	struct iv_fd_pump *ip = cookie;

	if (cur_k < 0 || ip != pumps[cur_k])
		emit(" WRONGCOOKIE", 12);
	emitf(" B%d%d", pollin, pollout);
}

static void emit_state(struct iv_fd_pump *ip)
{
	emitf(" s=%d,%d,%d,%d", ip->bytes, ip->full, ip->saw_fin, ip->buf != NULL);
}

static void free_answers(void)
{
	int i;

	for (i = 0; i < nrd; i++)
		free(rds[i].data);
	for (i = 0; i < nwr; i++)
		free(wrs[i].data);
	nrd = nwr = ird = iwr = 0;
}

static int hexv(int c)
{
	if (c >= '0' && c <= '9')
		return c - '0';
	if (c >= 'a' && c <= 'f')
		return c - 'a' + 10;
	if (c >= 'A' && c <= 'F')
		return c - 'A' + 10;
	return 0;
}

static void parse_rds(char *s)
{
	char *t;
	char *save;

	if (!strcmp(s, "-"))
		return;
	for (t = strtok_r(s, ",", &save); t != NULL && nrd < MAXANS; t = strtok_r(NULL, ",", &save)) {
		struct ans *a = &rds[nrd++];

		a->kind = t[0];
		a->data = NULL;
		a->n = 0;
		if (t[0] == 'D') {
			long n = strlen(t + 1) / 2;
			long j;

			a->data = malloc(n + 1);
			for (j = 0; j < n; j++)
				a->data[j] = hexv(t[1 + 2 * j]) * 16 + hexv(t[2 + 2 * j]);
			a->n = n;
		} else if (t[0] == 'G') {
			long n = atol(t + 1);
			char *at = strchr(t, '@');
			long s0 = at ? atol(at + 1) : 0;
			long j;

			a->kind = 'D';
			a->data = malloc(n + 1);
			for (j = 0; j < n; j++)
				a->data[j] = (s0 + 31 * j + j / 251) & 255;
			a->n = n;
		}
	}
}

static void parse_wrs(char *s)
{
	char *t;
	char *save;

	if (!strcmp(s, "-"))
		return;
	for (t = strtok_r(s, ",", &save); t != NULL && nwr < MAXANS; t = strtok_r(NULL, ",", &save)) {
		struct ans *a = &wrs[nwr++];

		a->kind = t[0];
		a->data = NULL;
		a->n = (t[0] == 'A') ? atol(t + 1) : 0;
	}
}

/* split "a:b:c" in place */
static int split_colon(char *s, char **f, int max)
{
	int n = 0;

	f[n++] = s;
	while (*s && n < max) {
		if (*s == ':') {
			*s = 0;
			f[n++] = s + 1;
		}
		s++;
	}
	return n;
}

static void do_op(char *o)
{
	char *f[6];
	int nf;
	int k;
	struct iv_fd_pump *ip;

	nf = split_colon(o + 1, f, 6);
	k = atoi(f[0]);
	if (k < 0 || k >= NSLOTS) {
		emit("skip", 4);
		return;
	}
	ip = pumps[k];

	switch (o[0]) {
	case 'i':
		if (ip != NULL || nf < 2) {
			emit("skip", 4);
			return;
		}
		ip = malloc(sizeof(*ip));
		memset(ip, 0xaa, sizeof(*ip));
		IV_FD_PUMP_INIT(ip);
		ip->from_fd = FAKE_BASE + 2 * k;
		ip->to_fd = FAKE_BASE + 2 * k + 1;
		ip->cookie = ip;
		ip->set_bands = set_bands;
		ip->flags = atoi(f[1]) ? IV_FD_PUMP_FLAG_RELAY_EOF : 0;
		pumps[k] = ip;
		dead[k] = 0;
		emit("rc=0", 4);
		cur_k = k;
		in_api = 1;
		iv_fd_pump_init(ip);
		in_api = 0;
		cur_k = -1;
		emit_state(ip);
		break;

	case 'd':
		if (ip == NULL) {
			emit("skip", 4);
			return;
		}
		emit("rc=0", 4);
		cur_k = k;
		in_api = 1;
		iv_fd_pump_destroy(ip);
		in_api = 0;
		cur_k = -1;
		if (ip->buf != NULL)
			emit(" BUFNOTNULL", 11);
		pumps[k] = NULL;
		memset(ip, 0xaa, sizeof(*ip));
		free(ip);
		break;

	case 'q':
		if (ip == NULL) {
			emit("skip", 4);
			return;
		}
		emitf("rc=%d", iv_fd_pump_is_done(ip));
		emit_state(ip);
		break;

	case 'P':		/* forced pump: not skipped after a -1 (API misuse, by hand only) */
	case 'p': {
		int rc;

		if (ip == NULL || (dead[k] && o[0] == 'p') || nf < 5) {
			emit("skip", 4);
			return;
		}
		parse_rds(f[2]);
		parse_wrs(f[4]);
		fion_fail = (f[3][0] == 'F');
		fion_val = atoi(f[3]);
		fail_malloc = !atoi(f[1]);
		{
			/* rc is printed first in the segment but known last */
			size_t mark = olen;
			char tmp[32];
			size_t tl;

			cur_k = k;
			in_api = 1;
			rc = iv_fd_pump_pump(ip);
			in_api = 0;
			cur_k = -1;
			fail_malloc = 0;

			tl = snprintf(tmp, sizeof(tmp), "rc=%d", rc);
			emit(tmp, tl);			/* make room */
			memmove(obuf + mark + tl, obuf + mark, olen - tl - mark);
			memcpy(obuf + mark, tmp, tl);
		}
		if (rc < 0)
			dead[k] = 1;
		emit_state(ip);
		free_answers();
		break;
	}

	default:
		emit("skip", 4);
	}
}

static void run_case(char *line)
{
	char *o;
	char *save;
	int first = 1;
	int i;
	int openp = 0;

	o = strtok_r(line, " ", &save);
	if (o == NULL)
		return;
	mode_sp = !strcmp(o, "sp");

	iv_init();

	for (o = strtok_r(NULL, " ", &save); o != NULL; o = strtok_r(NULL, " ", &save)) {
		if (!first)
			emit(" | ", 3);
		first = 0;
		do_op(o);
	}

	/* cleanup: destroy what is left, purge the cache (iv_deinit), then nothing may be left */
	{
		size_t mark = olen;

		for (i = 0; i < NSLOTS; i++) {
			if (pumps[i] != NULL) {
				cur_k = i;
				in_api = 1;
				iv_fd_pump_destroy(pumps[i]);
				in_api = 0;
				cur_k = -1;
				memset(pumps[i], 0xaa, sizeof(struct iv_fd_pump));
				free(pumps[i]);
				pumps[i] = NULL;
			}
		}
		olen = mark;
		obuf[olen] = 0;
	}
	iv_deinit();
	for (i = 0; i < npipes; i++)
		openp += (pipes[i][0] >= 0) + (pipes[i][1] >= 0);
	if (nbufs != 0 || openp != 0)
		emitf(" | LEAK bufs=%d pipefds=%d", nbufs, openp);
}

int main(void)
{
	char *line = NULL;
	size_t cap = 0;

	while (getline(&line, &cap, stdin) > 0) {
		int pfd[2];
		pid_t pid;
		char *res = NULL;
		size_t rlen = 0, rcap = 0;
		int status;

		line[strcspn(line, "\n")] = 0;
		if (pipe(pfd) < 0) {
			perror("pipe");
			return 3;
		}
		fflush(stdout);
		pid = fork();
		if (pid < 0) {
			perror("fork");
			return 3;
		}
		if (pid == 0) {
			size_t off = 0;

			__real_close(pfd[0]);
			alarm(60);
			emit("", 0);
			run_case(line);
			while (off < olen) {
				ssize_t w = __real_write(pfd[1], obuf + off, olen - off);

				if (w <= 0)
					_exit(5);
				off += w;
			}
			__real_close(pfd[1]);
			free(obuf);
			free(line);
			exit(0);		/* LeakSanitizer runs here */
		}
		__real_close(pfd[1]);
		for (;;) {
			ssize_t r;

			if (rlen + 65536 + 1 > rcap) {
				rcap = rcap * 2 + 131072;
				res = realloc(res, rcap);
			}
			r = __real_read(pfd[0], res + rlen, 65536);
			if (r < 0 && errno == EINTR)
				continue;
			if (r <= 0)
				break;
			rlen += r;
		}
		__real_close(pfd[0]);
		if (res != NULL)
			res[rlen] = 0;
		while (waitpid(pid, &status, 0) < 0 && errno == EINTR)
			;
		if (!WIFEXITED(status) || WEXITSTATUS(status) != 0) {
			fprintf(stderr, "pump_drv: case process failed (%s %d)\n",
				WIFEXITED(status) ? "exit" : "signal",
				WIFEXITED(status) ? WEXITSTATUS(status) : WTERMSIG(status));
			free(res);
			free(line);
			return WIFEXITED(status) ? WEXITSTATUS(status) : 99;
		}
		fputs(res ? res : "", stdout);
		fputc('\n', stdout);
		fflush(stdout);
		free(res);
	}
	free(line);
	return 0;
}
