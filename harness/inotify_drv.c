/*
 * inotify_drv -- drives the real /repo/src/iv_inotify.c for the C20
 * correspondence check.  The whole library is linked; inotify_init,
 * inotify_add_watch, inotify_rm_watch, read and close are interposed with
 * -Wl,--wrap:
 *   inotify_init       returns a REAL pollable descriptor (an eventfd), so that
 *                      iv_fd_register() of it works against the real epoll
 *                      (or fails with EMFILE when the case says so);
 *   inotify_add_watch  returns the wd scripted by the case (-1 = ENOENT);
 *   inotify_rm_watch   is recorded; like the kernel it fails with EINVAL for a wd the kernel has
 *                      already dropped, which is from the moment an IN_IGNORED record for it
 *                      was QUEUED (the buffer being fed contains it), not from when it is read;
 *   read               on the descriptor of the instance being fed returns the
 *                      scripted results (EINTR / EAGAIN / EIO / the byte buffer
 *                      built from the case's events with the real
 *                      struct inotify_event layout); anything else is forwarded;
 *   close              is recorded and forwarded.
 * The fd handler runs under a 3 s CPU-time watchdog (the harness never hangs).
 * iv_main() is not used: after iv_inotify_register(this) the loop would call
 * this->fd.handler_in(this->fd.cookie); the harness makes exactly that call.
 *
 * Every instance and every watch is individually malloc'ed, filled with 0xAA
 * before use, and poisoned again and freed at the earliest moment the API
 * allows: right after its unregister call returns (also inside handlers), at
 * handler entry for a watch the library dropped (IN_IGNORED / IN_ONESHOT), with
 * its instance for a watch still registered when the instance is unregistered,
 * right after a failed register call.
 *
 * stdin: one case per line, space separated tokens:
 *   S<w>[@<cookie>]=<act>,<act>,..   script of watch <w>'s handler (for events carrying <cookie>,
 *                                    or for all other events), at most 8 actions
 *   <act>                            at top level
 *   F<i>=<pre>[/<ev>/<ev>..]         call the fd handler of instance <i>; <pre> = results of the first
 *                                    read() calls: e = EINTR, a = EAGAIN, x = EIO; then the buffer
 *      <ev> = <wd>:<mask hex>:<cookie>:<name hex>[z<n>]     (z<n> = n more NUL bytes; len = all bytes)
 *   <act> = I<i> | I<i>!             alloc + iv_inotify_register (! = inotify_init fails)
 *           J<i>                     iv_inotify_unregister + free (and free its watches)
 *           W<w>@<i>:<wd>:<mask hex> alloc + iv_inotify_watch_register (inotify_add_watch returns <wd>)
 *           U<w>                     iv_inotify_watch_unregister + free
 *   guards (rc 1, nothing called): I of a live instance, J / F of a dead one, W of a watch that has a
 *   struct or on a dead instance, U of a watch without struct (never registered, registration failed,
 *   unregistered, dropped by the library, or its instance was unregistered).
 * stdout: one line per case, one segment per op joined by " | ":
 *   act:   rc=<rc><dump>
 *   feed:  rc=<rc> n=<deliveries>{ H<w> <wd>:<mask>:<cookie>:<name> m<w->mask> E[set at entry] A[rcs] X[set at exit]|X-}<dump>
 *   <dump> = { D<i>[<wd>><w>,..][ !term<i>]} for every live instance, from the real tree; !term<i> when
 *            its ->term is not NULL (it may only point into a running iv_inotify_got_event)
 *   FATAL  for the op in which iv_fatal was called and every later op
 */
#ifndef _GNU_SOURCE
#define _GNU_SOURCE
#endif
#include <errno.h>
#include <inttypes.h>
#include <setjmp.h>
#include <stdarg.h>
#include <stdio.h>
#include <stdlib.h>
#include <string.h>
#include <unistd.h>
#include <signal.h>
#include <sys/eventfd.h>
#include <sys/time.h>
#include <sys/inotify.h>
#include <iv.h>
#include <iv_avl.h>
#include <iv_inotify.h>
#include <iv_list.h>

#define MAXI		16
#define MAXW		64
#define MAXACT		8
#define MAXSCRIPT	128
#define MAXPRE		8
#define QMAX		65536

struct act {
	char		kind;		/* I J W U */
	int		a;
	int		b;
	int		ok;
	long		wd;
	uint32_t	mask;
};

struct script {
	int		w;
	int		has_cookie;
	uint32_t	cookie;
	int		n;
	struct act	acts[MAXACT];
};

struct wslot {
	struct iv_inotify_watch	*w;
	int			id;
	int			inst;
	int			wd;
};

struct islot {
	struct iv_inotify	*in;
	int			fd;
};

static struct wslot wslots[MAXW];
static struct islot islots[MAXI];
static struct script scripts[MAXSCRIPT];
static int nscripts;

static const char watch_path[] = "/verif/c20";

/* output */
static char *obuf;
static size_t olen, ocap;

static void outf(const char *fmt, ...)
{
	va_list ap;
	int n;

	for (;;) {
		va_start(ap, fmt);
		n = vsnprintf(obuf + olen, ocap - olen, fmt, ap);
		va_end(ap);
		if (n >= 0 && (size_t)n < ocap - olen) {
			olen += n;
			return;
		}
		ocap = ocap * 2 + n + 64;
		obuf = realloc(obuf, ocap);
		if (obuf == NULL)
			exit(2);
	}
}

static void die(const char *msg)
{
	fprintf(stderr, "inotify_drv: %s\n", msg);
	exit(2);
}

/* ---- interposed calls ---- */
int __real_inotify_init(void);
ssize_t __real_read(int fd, void *buf, size_t count);
int __real_close(int fd);

static int init_fail;
static int n_init, n_add, n_rm, n_close;
static int add_fd, rm_fd, rm_wd, close_fd;
static uint32_t add_mask;
static const char *add_path;
static long next_add_wd;

static int feed_active;
static int feed_fd;
static char pre[MAXPRE + 1];
static int pre_n, pre_pos;
static uint8_t qbuf[QMAX];
static size_t qlen;
static int data_served;
static int n_read;

int __wrap_inotify_init(void)
{
	n_init++;
	if (init_fail) {
		errno = EMFILE;
		return -1;
	}
	return eventfd(0, EFD_NONBLOCK);
}

/* (fd, wd) pairs the "kernel" has dropped: IN_IGNORED queued and the wd not handed out again */
#define KDEAD_MAX	4096
static struct { int fd; int wd; } kdead[KDEAD_MAX];
static int n_kdead;

static int kdead_find(int fd, int wd)
{
	int i;

	for (i = 0; i < n_kdead; i++)
		if (kdead[i].fd == fd && kdead[i].wd == wd)
			return i;
	return -1;
}

static void kdead_mark(int fd, int wd)
{
	if (kdead_find(fd, wd) < 0 && n_kdead < KDEAD_MAX) {
		kdead[n_kdead].fd = fd;
		kdead[n_kdead].wd = wd;
		n_kdead++;
	}
}

static void kdead_clear(int fd, int wd)
{
	int i = kdead_find(fd, wd);

	if (i >= 0)
		kdead[i] = kdead[--n_kdead];
}

static void kdead_clear_fd(int fd)
{
	int i = 0;

	while (i < n_kdead) {
		if (kdead[i].fd == fd)
			kdead[i] = kdead[--n_kdead];
		else
			i++;
	}
}

int __wrap_inotify_add_watch(int fd, const char *pathname, uint32_t mask)
{
	n_add++;
	add_fd = fd;
	add_path = pathname;
	add_mask = mask;
	if (next_add_wd == -1) {
		errno = ENOENT;
		return -1;
	}
	kdead_clear(fd, (int)next_add_wd);
	return (int)next_add_wd;
}

int __wrap_inotify_rm_watch(int fd, int wd)
{
	n_rm++;
	rm_fd = fd;
	rm_wd = wd;
	if (kdead_find(fd, wd) >= 0) {
		errno = EINVAL;
		return -1;
	}
	return 0;
}

ssize_t __wrap_read(int fd, void *buf, size_t count)
{
	if (feed_active && fd == feed_fd) {
		size_t n;

		if (++n_read > MAXPRE + 4)
			die("read() called too often");
		if (pre_pos < pre_n) {
			char c = pre[pre_pos++];

			errno = (c == 'e') ? EINTR : (c == 'a') ? EAGAIN : EIO;
			return -1;
		}
		if (data_served) {
			errno = EAGAIN;
			return -1;
		}
		data_served = 1;
		n = qlen < count ? qlen : count;
		memcpy(buf, qbuf, n);
		return n;
	}
	return __real_read(fd, buf, count);
}

int __wrap_close(int fd)
{
	int i;

	for (i = 0; i < MAXI; i++) {
		if (islots[i].in != NULL && islots[i].fd == fd) {
			n_close++;
			close_fd = fd;
		}
	}
	kdead_clear_fd(fd);
	return __real_close(fd);
}

static void sys_reset(void)
{
	n_init = n_add = n_rm = n_close = 0;
}

static void sys_expect(int init, int add, int rm, int cl, const char *what)
{
	if (n_init != init || n_add != add || n_rm != rm || n_close != cl)
		outf(" !sys(%s:init=%d,add=%d,rm=%d,close=%d)", what, n_init, n_add, n_rm, n_close);
}

/* ---- fatal ---- */
static jmp_buf fatal_jb;
static volatile int fatal_armed;
static volatile int dead;

static void on_fatal(const char *msg)
{
	if (fatal_armed) {
		fatal_armed = 0;
		longjmp(fatal_jb, 1);
	}
	fprintf(stderr, "inotify_drv: unexpected iv_fatal: %s\n", msg);
	exit(3);
}

/* ---- watchdog: the fd handler must return (a parse loop that does not advance never would) ---- */
static void on_watchdog(int sig)
{
	static const char msg[] = "inotify_drv: watchdog: iv_inotify_got_event did not return within 3 s of CPU time\n";

	(void)sig;
	if (write(2, msg, sizeof(msg) - 1) < 0)
		_exit(5);
	_exit(5);
}

static void watchdog(int seconds)
{
	struct itimerval it;

	memset(&it, 0, sizeof(it));
	it.it_value.tv_sec = seconds;
	setitimer(ITIMER_VIRTUAL, &it, NULL);
}

/* ---- dumps through the real tree ---- */
static void dump_tree(const char *tag, struct iv_inotify *in)
{
	struct iv_avl_node *an;
	int n = 0;

	outf(" %s[", tag);
	iv_avl_tree_for_each (an, &in->watches) {
		struct iv_inotify_watch *w = iv_container_of(an, struct iv_inotify_watch, an);
		struct wslot *sl = w->cookie;

		if (++n > MAXW + 1) {
			outf("LOOP");
			break;
		}
		outf("%s%d>%d", n > 1 ? "," : "", w->wd, sl->id);
	}
	outf("]");
}

static void dump_all(void)
{
	int i;

	for (i = 1; i < MAXI; i++) {
		if (islots[i].in != NULL) {
			char tag[16];

			snprintf(tag, sizeof(tag), "D%d", i);
			dump_tree(tag, islots[i].in);
			/* outside iv_inotify_got_event ->term must not point anywhere */
			if (islots[i].in->term != NULL)
				outf(" !term%d", i);
		}
	}
}

static void print_name(const uint8_t *p, uint32_t len)
{
	uint32_t last = len;
	uint32_t k;

	while (last > 0 && p[last - 1] == 0)
		last--;
	for (k = 0; k < last; k++)
		outf("%02x", p[k]);
	if (len > last)
		outf("z%u", len - last);
}

/* ---- actions ---- */
static int cur_inst;		/* instance being fed, 0 = none */
static int cur_gone;		/* it was unregistered during this read */
static int ndeliv;

static void watch_handler(void *cookie, struct inotify_event *ev);

static void free_watch(struct wslot *sl)
{
	memset(sl->w, 0xaa, sizeof(*sl->w));
	free(sl->w);
	sl->w = NULL;
}

static int do_act(const struct act *a)
{
	int rc;
	int k;

	switch (a->kind) {
	case 'I': {
		struct iv_inotify *in;

		if (islots[a->a].in != NULL)
			return 1;
		in = malloc(sizeof(*in));
		memset(in, 0xaa, sizeof(*in));
		IV_INOTIFY_INIT(in);
		init_fail = !a->ok;
		sys_reset();
		rc = iv_inotify_register(in);
		sys_expect(1, 0, 0, 0, "register");
		init_fail = 0;
		if (rc != 0) {
			memset(in, 0xaa, sizeof(*in));
			free(in);
			return rc;
		}
		islots[a->a].in = in;
		islots[a->a].fd = in->fd.fd;
		return 0;
	}
	case 'J': {
		struct iv_inotify *in = islots[a->a].in;

		if (in == NULL)
			return 1;
		sys_reset();
		iv_inotify_unregister(in);
		sys_expect(0, 0, 0, 1, "unregister");
		if (n_close == 1 && close_fd != islots[a->a].fd)
			outf(" !sys(close of the wrong descriptor)");
		memset(in, 0xaa, sizeof(*in));
		free(in);
		islots[a->a].in = NULL;
		for (k = 0; k < MAXW; k++) {
			if (wslots[k].w != NULL && wslots[k].inst == a->a)
				free_watch(&wslots[k]);
		}
		if (a->a == cur_inst)
			cur_gone = 1;
		return 0;
	}
	case 'W': {
		struct wslot *sl = &wslots[a->a];
		struct iv_inotify_watch *w;

		if (sl->w != NULL || islots[a->b].in == NULL)
			return 1;
		w = malloc(sizeof(*w));
		memset(w, 0xaa, sizeof(*w));
		IV_INOTIFY_WATCH_INIT(w);
		w->inotify = islots[a->b].in;
		w->pathname = watch_path;
		w->mask = a->mask;
		w->cookie = sl;
		w->handler = watch_handler;
		next_add_wd = a->wd;
		sys_reset();
		rc = iv_inotify_watch_register(w);
		sys_expect(0, 1, 0, 0, "watch_register");
		if (n_add == 1 && (add_fd != islots[a->b].fd || add_mask != a->mask || add_path != watch_path))
			outf(" !sys(inotify_add_watch arguments)");
		if (rc != 0) {
			memset(w, 0xaa, sizeof(*w));
			free(w);
			return rc;
		}
		sl->w = w;
		sl->id = a->a;
		sl->inst = a->b;
		sl->wd = (int)a->wd;
		return 0;
	}
	case 'U': {
		struct wslot *sl = &wslots[a->a];

		if (sl->w == NULL)
			return 1;
		sys_reset();
		iv_inotify_watch_unregister(sl->w);
		sys_expect(0, 0, 1, 0, "watch_unregister");
		if (n_rm == 1 && (rm_fd != islots[sl->inst].fd || rm_wd != sl->wd))
			outf(" !sys(inotify_rm_watch arguments)");
		free_watch(sl);
		return 0;
	}
	}
	die("bad action");
	return 0;
}

static const struct script *find_script(int w, uint32_t cookie)
{
	const struct script *dflt = NULL;
	int k;

	for (k = 0; k < nscripts; k++) {
		if (scripts[k].w != w)
			continue;
		if (scripts[k].has_cookie && scripts[k].cookie == cookie)
			return &scripts[k];
		if (!scripts[k].has_cookie && dflt == NULL)
			dflt = &scripts[k];
	}
	return dflt;
}

static void watch_handler(void *cookie, struct inotify_event *ev)
{
	struct wslot *sl = cookie;
	const struct script *sc;
	int inst = cur_inst;
	uint32_t evcookie = ev->cookie;
	uint32_t wmask;
	int dropped;
	int k;

	if (++ndeliv > QMAX / 16 + 1)
		die("too many deliveries");
	if (sl->w == NULL) {
		/* a delivery to a watch that has no struct any more */
		outf(" H%d STALE", sl->id);
		return;
	}
	wmask = sl->w->mask;
	outf(" H%d %d:%x:%u:", sl->id, ev->wd, ev->mask, ev->cookie);
	print_name((const uint8_t *)ev->name, ev->len);
	outf(" m%x", wmask);
	if (inst != 0 && islots[inst].in != NULL && !cur_gone)
		dump_tree("E", islots[inst].in);
	else
		outf(" E-");

	dropped = (ev->mask & IN_IGNORED) || (wmask & IN_ONESHOT);
	if (dropped)
		free_watch(sl);

	outf(" A[");
	sc = find_script(sl->id, evcookie);
	if (sc != NULL) {
		for (k = 0; k < sc->n; k++) {
			size_t at;
			int rc;

			outf("%s", k ? "," : "");
			at = olen;
			rc = do_act(&sc->acts[k]);
			if (olen != at) {
				/* a syscall anomaly was printed inside; keep it after the rc */
				outf(";%d", rc);
			} else {
				outf("%d", rc);
			}
		}
	}
	outf("]");

	if (cur_gone || islots[inst].in == NULL)
		outf(" X-");
	else
		dump_tree("X", islots[inst].in);
}

/* ---- parsing ---- */
static int parse_act(const char *s, struct act *a)
{
	char *end;

	memset(a, 0, sizeof(*a));
	a->kind = s[0];
	a->ok = 1;
	switch (s[0]) {
	case 'I':
		a->a = strtol(s + 1, &end, 10);
		if (*end == '!') {
			a->ok = 0;
			end++;
		}
		if (*end || a->a <= 0 || a->a >= MAXI)
			return -1;
		return 0;
	case 'J':
		a->a = strtol(s + 1, &end, 10);
		if (*end || a->a <= 0 || a->a >= MAXI)
			return -1;
		return 0;
	case 'U':
		a->a = strtol(s + 1, &end, 10);
		if (*end || a->a <= 0 || a->a >= MAXW)
			return -1;
		return 0;
	case 'W':
		a->a = strtol(s + 1, &end, 10);
		if (*end != '@')
			return -1;
		a->b = strtol(end + 1, &end, 10);
		if (*end != ':')
			return -1;
		a->wd = strtol(end + 1, &end, 10);
		if (*end != ':')
			return -1;
		a->mask = strtoul(end + 1, &end, 16);
		if (*end || a->a <= 0 || a->a >= MAXW || a->b <= 0 || a->b >= MAXI)
			return -1;
		if (a->wd < -2147483647L - 1 || a->wd > 2147483647L)
			return -1;
		return 0;
	}
	return -1;
}

static int hexval(int c)
{
	if (c >= '0' && c <= '9')
		return c - '0';
	if (c >= 'a' && c <= 'f')
		return c - 'a' + 10;
	return -1;
}

/* one event "<wd>:<mask>:<cookie>:<name>" appended to qbuf */
static void parse_event(const char *s)
{
	struct inotify_event h;
	uint8_t *name;
	uint32_t len = 0;
	char *end;
	long wd;

	wd = strtol(s, &end, 10);
	if (*end != ':')
		die("bad event");
	h.wd = (int)wd;
	h.mask = strtoul(end + 1, &end, 16);
	if (*end != ':')
		die("bad event");
	h.cookie = strtoul(end + 1, &end, 10);
	if (*end != ':')
		die("bad event");
	end++;
	if (qlen + sizeof(h) > QMAX)
		die("read buffer too large");
	name = qbuf + qlen + sizeof(h);
	while (hexval(end[0]) >= 0 && hexval(end[1]) >= 0) {
		if (qlen + sizeof(h) + len + 1 > QMAX)
			die("read buffer too large");
		name[len++] = hexval(end[0]) * 16 + hexval(end[1]);
		end += 2;
	}
	if (*end == 'z') {
		long z = strtol(end + 1, &end, 10);

		if (z < 0 || qlen + sizeof(h) + len + z > QMAX)
			die("read buffer too large");
		memset(name + len, 0, z);
		len += z;
	}
	if (*end)
		die("bad event name");
	h.len = len;
	memcpy(qbuf + qlen, &h, sizeof(h));
	qlen += sizeof(h) + len;
}

static void do_feed(char *spec)
{
	struct iv_inotify *in;
	char *end;
	char *p;
	int i;

	i = strtol(spec + 1, &end, 10);
	if (*end != '=' || i <= 0 || i >= MAXI)
		die("bad feed");
	p = end + 1;
	pre_n = 0;
	while (*p == 'e' || *p == 'a' || *p == 'x') {
		if (pre_n >= MAXPRE)
			die("too many scripted read results");
		pre[pre_n++] = *p++;
	}
	qlen = 0;
	while (*p == '/') {
		char *q = strchr(p + 1, '/');

		if (q != NULL)
			*q = 0;
		parse_event(p + 1);
		if (q == NULL)
			break;
		*q = '/';
		p = q;
	}

	in = islots[i].in;
	if (in == NULL) {
		outf("rc=1 n=0");
		return;
	}

	{
		void (*h)(void *) = in->fd.handler_in;
		void *ck = in->fd.cookie;
		size_t mark;

		outf("rc=0 n=");
		mark = olen;
		outf("     ");			/* room for the count */
		cur_inst = i;
		cur_gone = 0;
		ndeliv = 0;
		feed_fd = islots[i].fd;
		{
			/* the kernel dropped every wd it queued an IN_IGNORED for */
			size_t off = 0;

			while (off + sizeof(struct inotify_event) <= qlen) {
				struct inotify_event ev;

				memcpy(&ev, qbuf + off, sizeof(ev));
				if (ev.mask & IN_IGNORED)
					kdead_mark(feed_fd, ev.wd);
				off += sizeof(ev) + ev.len;
			}
		}
		pre_pos = 0;
		data_served = 0;
		n_read = 0;
		feed_active = 1;
		watchdog(3);
		if (setjmp(fatal_jb) == 0) {
			fatal_armed = 1;
			h(ck);
			fatal_armed = 0;
		} else {
			dead = 1;
		}
		watchdog(0);
		feed_active = 0;
		cur_inst = 0;
		{
			char num[8];
			int n = snprintf(num, sizeof(num), "%d", ndeliv);

			memcpy(obuf + mark, num, n);
			/* close the gap left by the placeholder */
			memmove(obuf + mark + n, obuf + mark + 5, olen - (mark + 5));
			olen -= 5 - n;
			obuf[olen] = 0;
		}
	}
}

int main(void)
{
	char *line = NULL;
	size_t cap = 0;

	iv_set_fatal_msg_handler(on_fatal);
	signal(SIGVTALRM, on_watchdog);
	iv_init();

	ocap = 1 << 16;
	obuf = malloc(ocap);

	while (getline(&line, &cap, stdin) > 0) {
		char *o;
		char *save;
		int first = 1;
		int i;

		/* watchdog per case: a run-away loop in the library must not stall the whole check (the runner
		   records the unanswered case as crashed and resumes after it) */
		alarm(30);

		line[strcspn(line, "\n")] = 0;
		nscripts = 0;
		n_kdead = 0;
		dead = 0;
		olen = 0;
		obuf[0] = 0;

		/* scripts first: a script may be written anywhere on the line */
		{
			char *copy = strdup(line);
			char *s2;

			for (o = strtok_r(copy, " ", &s2); o != NULL; o = strtok_r(NULL, " ", &s2)) {
				struct script *sc;
				char *end;
				char *a;
				char *asave;

				if (o[0] != 'S')
					continue;
				if (nscripts >= MAXSCRIPT)
					die("too many scripts");
				sc = &scripts[nscripts++];
				memset(sc, 0, sizeof(*sc));
				sc->w = strtol(o + 1, &end, 10);
				if (*end == '@') {
					sc->has_cookie = 1;
					sc->cookie = strtoul(end + 1, &end, 10);
				}
				if (*end != '=' || sc->w <= 0 || sc->w >= MAXW)
					die("bad script");
				for (a = strtok_r(end + 1, ",", &asave); a != NULL; a = strtok_r(NULL, ",", &asave)) {
					if (sc->n >= MAXACT)
						break;
					if (parse_act(a, &sc->acts[sc->n++]) < 0)
						die("bad script action");
				}
			}
			free(copy);
		}

		for (o = strtok_r(line, " ", &save); o != NULL; o = strtok_r(NULL, " ", &save)) {
			if (o[0] == 'S')
				continue;
			if (!first)
				outf(" | ");
			first = 0;
			if (dead) {
				outf("FATAL");
				continue;
			}
			if (o[0] == 'F') {
				size_t mark = olen;

				do_feed(o);
				if (dead) {
					olen = mark;
					obuf[olen] = 0;
					outf("FATAL");
					continue;
				}
			} else {
				struct act a;
				size_t mark;
				int rc;

				if (parse_act(o, &a) < 0)
					die("bad op");
				outf("rc=");
				mark = olen;
				rc = do_act(&a);
				if (olen != mark) {
					outf(";%d", rc);
				} else {
					outf("%d", rc);
				}
			}
			dump_all();
		}
		fputs(obuf, stdout);
		fputc('\n', stdout);
		fflush(stdout);

		/* back to the empty state */
		cur_inst = 0;
		for (i = 1; i < MAXI; i++) {
			if (islots[i].in != NULL) {
				struct act a = { .kind = 'J', .a = i };

				do_act(&a);
			}
		}
		for (i = 0; i < MAXW; i++) {
			if (wslots[i].w != NULL)
				die("watch struct left without instance");
		}
	}
	free(line);
	free(obuf);
	iv_deinit();
	return 0;
}
