/*
 * method_smoke -- prints the poll method the library selects for the IV_EXCLUDE_POLL_METHOD value of the
 * environment it is started with (real kernel).  Used by the C15 check: the selection must equal
 * Core/MethodSel.v `select` for every exclusion string (whole-token comparison, any whitespace, unknown tokens,
 * tokens that are prefixes or extensions of method names, all methods excluded = abort).
 * Output: "METHOD <name>" or, when the library aborts because nothing is left, the abort message on stderr and
 * a non-zero status (SIGABRT).
 */
#include <stdio.h>
#include <iv.h>

int main(void)
{
	iv_init();
	printf("METHOD %s\n", iv_poll_method_name());
	iv_deinit();
	return 0;
}
