/*
 * signal_smoke -- real fork, real kernel, no interposition (C10, clause "a forked child never triggers the
 * parent's handlers"): the only place where iv_signal_register runs in a forked child, i.e. where the
 * iv_signal_child_reset_postfork path of the real code executes.
 *   variant A: the parent has an interest for SIGUSR1; the child (fresh iv_init) registers an interest of its own for
 *              SIGUSR1 and raises SIGUSR1: the child's handler runs once in the child; the parent's handler runs
 *              0 times (neither in the child nor in the parent) and the parent's raw event is not posted.
 *   variant B: the child only raises SIGUSR1: nothing runs anywhere.
 * Finally the parent raises SIGUSR1 itself: its handler runs exactly once.
 * No sleeps and no timing assumptions: the parent waits for EOF of a pipe the child holds; only the 40 s guard
 * timer is a clock.  Prints "OK" or "FAIL <what>"; exit status 0 / 1.
 */
#define _GNU_SOURCE
#include <errno.h>
#include <poll.h>
#include <signal.h>
#include <stdio.h>
#include <stdlib.h>
#include <string.h>
#include <sys/wait.h>
#include <unistd.h>
#include <iv.h>
#include <iv_signal.h>

static struct iv_signal parent_int, child_int;
static struct iv_fd repfd;
static struct iv_timer guard;
static int parent_calls, child_calls, final_phase;
static char rep[512];
static int replen;

static void fail(const char *what)
{
	printf("FAIL %s\n", what);
	exit(1);
}

static void guard_fired(void *c)
{
	(void)c;
	fail("timeout (loop did not finish)");
}

static void parent_handler(void *c)
{
	(void)c;
	parent_calls++;
	if (final_phase)
		iv_quit();
}

static void child_handler(void *c)
{
	(void)c;
	child_calls++;
	iv_signal_unregister(&child_int);
}

static void got_report(void *c)
{
	int n = read(repfd.fd, rep + replen, sizeof(rep) - 1 - replen);

	(void)c;
	if (n > 0) {
		replen += n;
		return;
	}
	if (n < 0 && (errno == EAGAIN || errno == EINTR))
		return;
	/* EOF: the child is gone */
	iv_fd_unregister(&repfd);
	close(repfd.fd);
	iv_timer_unregister(&guard);
	iv_quit();
}

static int raw_event_posted(struct iv_signal *is)
{
	struct pollfd p = { .fd = is->ev.event_rfd.fd, .events = POLLIN };

	return poll(&p, 1, 0) > 0;
}

static void run_variant(int registers, const char *expect)
{
	int pfd[2];
	pid_t pid;

	if (pipe(pfd) < 0)
		fail("pipe");
	replen = 0;
	pid = fork();
	if (pid < 0)
		fail("fork");
	if (pid == 0) {
		char buf[128];
		int n;

		close(pfd[0]);
		if (registers) {
			/* a child that wants to use the library starts its own loop */
			iv_deinit();
			iv_init();
			IV_SIGNAL_INIT(&child_int);
			child_int.signum = SIGUSR1;
			child_int.flags = 0;
			child_int.cookie = NULL;
			child_int.handler = child_handler;
			if (iv_signal_register(&child_int) != 0)
				_exit(3);
			raise(SIGUSR1);
			iv_main();
		} else {
			raise(SIGUSR1);
		}
		n = snprintf(buf, sizeof(buf), "child=%d parentcopy=%d\n", child_calls, parent_calls);
		if (write(pfd[1], buf, n) != n)
			_exit(4);
		_exit(0);
	}
	close(pfd[1]);
	IV_FD_INIT(&repfd);
	repfd.fd = pfd[0];
	repfd.handler_in = got_report;
	iv_fd_register(&repfd);
	IV_TIMER_INIT(&guard);
	iv_validate_now();
	guard.expires = iv_now;
	guard.expires.tv_sec += 40;
	guard.handler = guard_fired;
	iv_timer_register(&guard);
	iv_main();
	rep[replen] = 0;
	if (waitpid(pid, NULL, 0) != pid)
		fail("waitpid");
	if (strstr(rep, expect) == NULL) {
		printf("FAIL %s: child reported `%s`, expected `%s`\n", registers ? "variant A" : "variant B", rep, expect);
		exit(1);
	}
	if (parent_calls != 0)
		fail("the parent's handler ran although no signal was sent to the parent");
	if (raw_event_posted(&parent_int))
		fail("a signal delivered in the forked child posted the parent's interest (its raw event is readable)");
}

int main(void)
{
	iv_init();

	IV_SIGNAL_INIT(&parent_int);
	parent_int.signum = SIGUSR1;
	parent_int.flags = 0;
	parent_int.cookie = NULL;
	parent_int.handler = parent_handler;
	if (iv_signal_register(&parent_int) != 0)
		fail("register");

	run_variant(1, "child=1 parentcopy=0");
	run_variant(0, "child=0 parentcopy=0");

	/* the parent's own interest still works: one delivery, one handler call */
	final_phase = 1;
	raise(SIGUSR1);
	IV_TIMER_INIT(&guard);
	iv_validate_now();
	guard.expires = iv_now;
	guard.expires.tv_sec += 40;
	guard.handler = guard_fired;
	iv_timer_register(&guard);
	iv_main();		/* ends through iv_quit in the handler */
	iv_timer_unregister(&guard);
	if (parent_calls != 1)
		fail("a signal delivered to the parent did not run its handler exactly once");
	iv_signal_unregister(&parent_int);
	iv_deinit();
	printf("OK\n");
	return 0;
}
