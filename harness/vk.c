/*
 * vk.c -- the virtual kernel (see vk.h).  Twin of coq/theories/Core/Kernel.v.
 */
#define _GNU_SOURCE
#include <errno.h>
#include <fcntl.h>
#include <poll.h>
#include <stdarg.h>
#include <stdint.h>
#include <stdio.h>
#include <stdlib.h>
#include <string.h>
#include <sys/epoll.h>
#include <sys/syscall.h>
#include <sys/time.h>
#include <sys/timerfd.h>
#include <time.h>
#include <unistd.h>
#include "vk.h"

struct vk_faults vk_faults;
long long vk_clock = 1000000000LL;	/* start at 1 s */
int vk_wait_limit = 60;
int vk_nwait;

static struct vk_fd fds[VK_MAXFD];
static int next_dyn = VK_DYN_BASE;
static int n_ctl;
static int n_efd;		/* eventfd descriptors created so far */

#define MAXENT 256
struct vk_ent {
	int		fd;
	uint32_t	events;
	uint64_t	data;
	int		enabled;
};
struct vk_ep {
	struct vk_ent	ents[MAXENT];
	int		n;
};
#define MAXEP 8
static struct vk_ep eps[MAXEP];
static int n_eps;

int vk_is_virtual(int fd)
{
	return fd >= VK_USER_BASE && fd < VK_MAXFD;
}

struct vk_fd *vk_get(int fd)
{
	if (!vk_is_virtual(fd))
		return NULL;
	if (fds[fd].kind == VK_FREE)
		return NULL;
	return &fds[fd];
}

static struct vk_fd *vk_open(int fd)
{
	struct vk_fd *v = vk_get(fd);

	if (v == NULL || v->closed)
		return NULL;
	return v;
}

void vk_user_fd(int i)
{
	struct vk_fd *v = &fds[VK_USER_BASE + i];

	memset(v, 0, sizeof(*v));
	v->kind = VK_SCRIPTED;
}

static int vk_alloc(int kind)
{
	int fd = next_dyn++;

	if (fd >= VK_MAXFD)
		vk_end("VKFULL");
	memset(&fds[fd], 0, sizeof(fds[fd]));
	fds[fd].kind = kind;
	return fd;
}

int vk_cond(int fd)
{
	struct vk_fd *v = vk_get(fd);

	if (v == NULL)
		return 0;
	switch (v->kind) {
	case VK_SCRIPTED:
		return v->cond;
	case VK_EVENTFD:
		return (v->cnt > 0 ? VK_IN : 0) | VK_OUT;
	case VK_PIPE_R:
		return (v->cnt > 0 ? VK_IN : 0) | (v->peer_open ? 0 : VK_HUP);
	case VK_PIPE_W:
		return (fds[v->peer].cnt < 65536 ? VK_OUT : 0) | (v->peer_open ? 0 : VK_ERR);
	case VK_TIMERFD:
		if (v->deadline != 0 && v->deadline <= vk_clock)
			v->fired = 1;
		return v->fired ? VK_IN : 0;
	}
	return 0;
}

static void fmt_cond(char *buf, int c)
{
	int n = 0;

	if (c & VK_IN)
		buf[n++] = 'i';
	if (c & VK_OUT)
		buf[n++] = 'o';
	if (c & VK_HUP)
		buf[n++] = 'h';
	if (c & VK_ERR)
		buf[n++] = 'e';
	buf[n] = 0;
}

/* ground truth of the scripted descriptors, for the trace */
static void trace_ground(char *out, size_t len)
{
	int fd;
	size_t n = 0;

	out[0] = 0;
	for (fd = VK_USER_BASE; fd < VK_DYN_BASE; fd++) {
		char c[8];

		if (fds[fd].kind != VK_SCRIPTED || fds[fd].closed || fds[fd].cond == 0)
			continue;
		fmt_cond(c, fds[fd].cond);
		n += snprintf(out + n, len - n, "%s%d:%s", n ? "," : "", fd, c);
		if (n >= len - 16)
			break;
	}
}

/* ---- clock ---- */
int __wrap_clock_gettime(clockid_t id, struct timespec *ts)
{
	(void)id;
	ts->tv_sec = vk_clock / 1000000000LL;
	ts->tv_nsec = vk_clock % 1000000000LL;
	return 0;
}

int __wrap_gettimeofday(struct timeval *tv, void *tz)
{
	(void)tz;
	tv->tv_sec = vk_clock / 1000000000LL;
	tv->tv_usec = (vk_clock % 1000000000LL) / 1000;
	return 0;
}

/* ---- descriptor creation ---- */
static int vk_epoll_create(void)
{
	int fd;

	if (n_eps >= MAXEP)
		vk_end("VKFULL");
	fd = vk_alloc(VK_EPOLL);
	fds[fd].epoll_owner = n_eps;
	eps[n_eps].n = 0;
	n_eps++;
	return fd;
}

int __wrap_epoll_create(int size)
{
	(void)size;
	return vk_epoll_create();
}

int __wrap_epoll_create1(int flags)
{
	(void)flags;
	if (vk_faults.no_create1) {
		errno = ENOSYS;
		return -1;
	}
	return vk_epoll_create();
}

static int vk_eventfd(int flags2)
{
	int fd;

	if (vk_faults.emfile_eventfd) {
		errno = EMFILE;
		return -1;
	}
	if (n_efd >= vk_faults.efd_ok && (vk_faults.no_eventfd || (flags2 && vk_faults.no_eventfd2))) {
		errno = ENOSYS;
		return -1;
	}
	fd = vk_alloc(VK_EVENTFD);
	n_efd++;
	if (flags2) {
		fds[fd].cloexec = 1;
		fds[fd].nonblock = 1;
	}
	return fd;
}

int __wrap_eventfd(unsigned int initval, int flags)
{
	(void)initval;
	return vk_eventfd(flags != 0);
}

long __real_syscall(long nr, ...);

long __wrap_syscall(long nr, ...)
{
	va_list ap;
	long a[6];
	int i;

	va_start(ap, nr);
	for (i = 0; i < 6; i++)
		a[i] = va_arg(ap, long);
	va_end(ap);

	switch (nr) {
#ifdef __NR_epoll_create1
	case __NR_epoll_create1:
		return __wrap_epoll_create1((int)a[0]);
#endif
#ifdef __NR_eventfd2
	case __NR_eventfd2:
		return vk_eventfd(1);
#endif
#ifdef __NR_eventfd
	case __NR_eventfd:
		return vk_eventfd(0);
#endif
	}
	return __real_syscall(nr, a[0], a[1], a[2], a[3], a[4], a[5]);
}

int __wrap_pipe(int pfd[2])
{
	int r, w;

	if (vk_faults.emfile_eventfd) {
		errno = EMFILE;
		return -1;
	}
	r = vk_alloc(VK_PIPE_R);
	w = vk_alloc(VK_PIPE_W);
	fds[r].peer = w;
	fds[w].peer = r;
	fds[r].peer_open = 1;
	fds[w].peer_open = 1;
	pfd[0] = r;
	pfd[1] = w;
	return 0;
}

int __wrap_timerfd_create(int clockid, int flags)
{
	int fd;

	(void)clockid;
	(void)flags;
	if (vk_faults.no_timerfd) {
		errno = ENOSYS;
		return -1;
	}
	fd = vk_alloc(VK_TIMERFD);
	fds[fd].cloexec = 1;
	fds[fd].nonblock = 1;
	return fd;
}

int __wrap_timerfd_settime(int fd, int flags, const struct itimerspec *nv, struct itimerspec *ov)
{
	struct vk_fd *v = vk_open(fd);

	(void)ov;
	if (v == NULL || v->kind != VK_TIMERFD) {
		errno = EBADF;
		return -1;
	}
	v->deadline = (long long)nv->it_value.tv_sec * 1000000000LL + nv->it_value.tv_nsec;
	/* like the kernel: without TFD_TIMER_ABSTIME a non-zero value is an interval from now (the trace shows the
	   effective absolute deadline; the model, like the library, always asks for an absolute one) */
	if (!(flags & TFD_TIMER_ABSTIME) && v->deadline != 0)
		v->deadline += vk_clock;
	v->fired = 0;
	vk_trace("K tfd=%lld", v->deadline);
	return 0;
}

/* ---- epoll ---- */
static struct vk_ep *ep_of(int epfd)
{
	struct vk_fd *v = vk_open(epfd);

	if (v == NULL || v->kind != VK_EPOLL)
		return NULL;
	return &eps[v->epoll_owner];
}

int __wrap_epoll_ctl(int epfd, int op, int fd, struct epoll_event *ev)
{
	struct vk_ep *ep = ep_of(epfd);
	int i;

	if (vk_yield_hook != NULL) {
		/* multi-threaded run: a kick (MOD arming EPOLLONESHOT) is logged and is a yield point */
		if (op == EPOLL_CTL_MOD && ev != NULL && (ev->events & EPOLLONESHOT)) {
			vk_yield_hook();
			vk_trace("Kk %d", epfd);
		}
	}
	n_ctl++;
	if (vk_faults.eintr_ctl && n_ctl == vk_faults.eintr_ctl) {
		errno = EINTR;
		return -1;
	}
	if (ep == NULL || vk_open(fd) == NULL) {
		errno = EBADF;
		return -1;
	}
	for (i = 0; i < ep->n; i++)
		if (ep->ents[i].fd == fd)
			break;
	switch (op) {
	case EPOLL_CTL_ADD:
		if (i < ep->n) {
			errno = EEXIST;
			return -1;
		}
		if (ep->n >= MAXENT)
			vk_end("VKFULL");
		ep->ents[ep->n].fd = fd;
		ep->ents[ep->n].events = ev->events;
		ep->ents[ep->n].data = ev->data.u64;
		ep->ents[ep->n].enabled = 1;
		ep->n++;
		return 0;
	case EPOLL_CTL_MOD:
		if (i == ep->n) {
			errno = ENOENT;
			return -1;
		}
		ep->ents[i].events = ev->events;
		ep->ents[i].data = ev->data.u64;
		ep->ents[i].enabled = 1;
		/* scenario option `Xkickyield`: a second yield point AFTER the kick has taken effect (the woken loop can run
		   its whole event pass before the poster executes its next statement, as on a real multiprocessor) */
		if (vk_yield_hook != NULL && vk_yield_after_kick && ev != NULL && (ev->events & EPOLLONESHOT))
			vk_yield_hook();
		return 0;
	case EPOLL_CTL_DEL:
		if (i == ep->n) {
			errno = ENOENT;
			return -1;
		}
		memmove(&ep->ents[i], &ep->ents[i + 1], (ep->n - i - 1) * sizeof(struct vk_ent));
		ep->n--;
		return 0;
	}
	errno = EINVAL;
	return -1;
}

static int cmp_ent(const void *a, const void *b)
{
	return ((const struct vk_ent *)a)->fd - ((const struct vk_ent *)b)->fd;
}

void (*vk_block_hook)(int (*ready)(void *), void *ctx, long long deadline);
void (*vk_yield_hook)(void);
int vk_yield_after_kick;

static uint32_t ep_ready_bits(const struct vk_ent *e);

static int ep_ready_cb(void *ctx)
{
	struct vk_ep *ep = ctx;
	int i;

	for (i = 0; i < ep->n; i++)
		if (ep_ready_bits(&ep->ents[i]))
			return 1;
	return 0;
}

static uint32_t ep_ready_bits(const struct vk_ent *e)
{
	int c = vk_cond(e->fd);
	uint32_t r = 0;

	if (!e->enabled)
		return 0;
	if ((c & VK_IN) && (e->events & EPOLLIN))
		r |= EPOLLIN;
	if ((c & VK_OUT) && (e->events & EPOLLOUT))
		r |= EPOLLOUT;
	if (c & VK_HUP)
		r |= EPOLLHUP;
	if (c & VK_ERR)
		r |= EPOLLERR;
	return r;
}

static void ev_letters(char *buf, uint32_t ev)
{
	int n = 0;

	if (ev & EPOLLIN)
		buf[n++] = 'i';
	if (ev & EPOLLOUT)
		buf[n++] = 'o';
	if (ev & EPOLLONESHOT)
		buf[n++] = '1';
	buf[n] = 0;
}

static int is_eintr(int nwait)
{
	int i;

	for (i = 0; i < vk_faults.n_eintr; i++)
		if (vk_faults.eintr_wait[i] == nwait)
			return 1;
	return 0;
}

/* timeout_ns: -1 = infinite */
static int vk_epoll_wait_common(const char *name, int epfd, struct epoll_event *events,
				int maxevents, long long timeout_ns)
{
	struct vk_ep *ep = ep_of(epfd);
	struct vk_ent sorted[MAXENT];
	char ibuf[2048], gbuf[1024];
	size_t n;
	int i, nr, rot, pass;
	int rep_fd[MAXENT];

	if (ep == NULL) {
		errno = EBADF;
		return -1;
	}

	vk_nwait++;
	if (vk_nwait > vk_wait_limit)
		vk_end("LIMIT");
	vk_before_wait(vk_nwait);

	memcpy(sorted, ep->ents, ep->n * sizeof(struct vk_ent));
	qsort(sorted, ep->n, sizeof(struct vk_ent), cmp_ent);

	n = 0;
	ibuf[0] = 0;
	for (i = 0; i < ep->n; i++) {
		char l[8];

		ev_letters(l, sorted[i].events);
		n += snprintf(ibuf + n, sizeof(ibuf) - n, "%s%d:%s%s", i ? "," : "", sorted[i].fd, l,
			      sorted[i].enabled ? "" : "!");
		if (n >= sizeof(ibuf) - 32)
			break;
	}
	trace_ground(gbuf, sizeof(gbuf));
	vk_trace("W%d %s max=%d to=%lld I=%s G=%s", vk_nwait, name, maxevents, timeout_ns, ibuf, gbuf);

	if (is_eintr(vk_nwait)) {
		/* the interruption arrives after half of a finite timeout has elapsed */
		if (timeout_ns > 0)
			vk_clock += timeout_ns / 2;
		vk_trace("R eintr clk=%lld", vk_clock);
		errno = EINTR;
		return -1;
	}

	rot = ep->n ? vk_rotation(vk_nwait) % ep->n : 0;
	for (pass = 0; pass < 2; pass++) {
		if (pass) {
			/* the interest set may have been changed by other threads while this one was blocked */
			memcpy(sorted, ep->ents, ep->n * sizeof(struct vk_ent));
			qsort(sorted, ep->n, sizeof(struct vk_ent), cmp_ent);
			rot = ep->n ? vk_rotation(vk_nwait) % ep->n : 0;
		}
		nr = 0;
		for (i = 0; i < ep->n && nr < maxevents; i++) {
			struct vk_ent *s = &sorted[(i + rot) % ep->n];
			uint32_t r = ep_ready_bits(s);

			if (r) {
				events[nr].events = r;
				events[nr].data.u64 = s->data;
				rep_fd[nr] = s->fd;
				nr++;
				if (s->events & EPOLLONESHOT) {
					int j;

					for (j = 0; j < ep->n; j++)
						if (ep->ents[j].fd == s->fd)
							ep->ents[j].enabled = 0;
				}
			}
		}
		if (nr || timeout_ns == 0 || pass)
			break;

		/* nothing ready: sleep until the timeout or the earliest armed timer descriptor */
		{
			long long wake = timeout_ns < 0 ? -1 : vk_clock + timeout_ns;
			int hooked = vk_block_hook != NULL;

			for (i = 0; i < ep->n; i++) {
				struct vk_fd *v = vk_get(sorted[i].fd);

				if (v != NULL && v->kind == VK_TIMERFD && v->deadline != 0 &&
				    (sorted[i].events & EPOLLIN) && sorted[i].enabled &&
				    (wake < 0 || v->deadline < wake))
					wake = v->deadline;
			}
			if (hooked) {
				/* multi-threaded run: the scheduler decides when this thread continues */
				vk_block_hook(ep_ready_cb, ep, wake);
				continue;
			}
			if (wake < 0)
				vk_end("HANG");
			if (wake > vk_clock)
				vk_clock = wake;
		}
	}
	{
		char fb[1024];
		size_t fn = 0;

		fb[0] = 0;
		for (i = 0; i < nr && fn < sizeof(fb) - 16; i++)
			fn += snprintf(fb + fn, sizeof(fb) - fn, "%s%d", i ? "," : "", rep_fd[i]);
		vk_trace("R n=%d f=%s clk=%lld", nr, fb, vk_clock);
	}
	return nr;
}

int __wrap_epoll_wait(int epfd, struct epoll_event *events, int maxevents, int timeout)
{
	return vk_epoll_wait_common("epoll_wait", epfd, events, maxevents,
				    timeout < 0 ? -1 : (long long)timeout * 1000000LL);
}

int __wrap_epoll_pwait2(int epfd, struct epoll_event *events, int maxevents,
			const struct timespec *to, const void *sigmask)
{
	(void)sigmask;
	if (vk_faults.no_pwait2 || vk_faults.perm_pwait2) {
		errno = vk_faults.no_pwait2 ? ENOSYS : EPERM;
		return -1;
	}
	return vk_epoll_wait_common("epoll_pwait2", epfd, events, maxevents,
				    to == NULL ? -1 : (long long)to->tv_sec * 1000000000LL + to->tv_nsec);
}

/* ---- poll ---- */
static short poll_revents(int fd, short events)
{
	struct vk_fd *v = vk_get(fd);
	int c;
	short r = 0;

	if (v == NULL || v->closed)
		return POLLNVAL;
	c = vk_cond(fd);
	if ((c & VK_IN) && (events & POLLIN))
		r |= POLLIN;
	if ((c & VK_OUT) && (events & POLLOUT))
		r |= POLLOUT;
	if (c & VK_HUP)
		r |= POLLHUP;
	if (c & VK_ERR)
		r |= POLLERR;
	return r;
}

struct poll_ctx {
	struct pollfd	*pfds;
	nfds_t		nfds;
};

static int poll_ready_cb(void *ctx)
{
	struct poll_ctx *pc = ctx;
	nfds_t i;

	for (i = 0; i < pc->nfds; i++)
		if (pc->pfds[i].fd >= 0 && poll_revents(pc->pfds[i].fd, pc->pfds[i].events))
			return 1;
	return 0;
}

static int vk_poll_common(const char *name, struct pollfd *pfds, nfds_t nfds, long long timeout_ns)
{
	char ibuf[2048], gbuf[1024];
	size_t n;
	nfds_t i;
	int nr;
	struct pollfd sorted[128];

	if (!vk_is_main_pollfds(pfds)) {
		/* the synchronous probe of iv_fd_register_try: no sleeping, not a wait */
		nr = 0;
		for (i = 0; i < nfds; i++) {
			pfds[i].revents = pfds[i].fd < 0 ? 0 : poll_revents(pfds[i].fd, pfds[i].events);
			if (pfds[i].revents)
				nr++;
		}
		return nr;
	}

	vk_nwait++;
	if (vk_nwait > vk_wait_limit)
		vk_end("LIMIT");
	vk_before_wait(vk_nwait);

	/* interest set, canonical (sorted by descriptor) */
	n = 0;
	ibuf[0] = 0;
	{
		nfds_t m = nfds < 128 ? nfds : 128;
		nfds_t a, b;

		memcpy(sorted, pfds, m * sizeof(struct pollfd));
		for (a = 0; a < m; a++)
			for (b = a + 1; b < m; b++)
				if (sorted[b].fd < sorted[a].fd) {
					struct pollfd t = sorted[a];
					sorted[a] = sorted[b];
					sorted[b] = t;
				}
		for (a = 0; a < m; a++) {
			char l[8];
			int k = 0;

			if (sorted[a].events & POLLIN)
				l[k++] = 'i';
			if (sorted[a].events & POLLOUT)
				l[k++] = 'o';
			if (sorted[a].events & POLLHUP)
				l[k++] = 'h';
			l[k] = 0;
			n += snprintf(ibuf + n, sizeof(ibuf) - n, "%s%d:%s", a ? "," : "", sorted[a].fd, l);
			if (n >= sizeof(ibuf) - 32)
				break;
		}
	}
	trace_ground(gbuf, sizeof(gbuf));
	vk_trace("W%d %s n=%d to=%lld I=%s G=%s", vk_nwait, name, (int)nfds, timeout_ns, ibuf, gbuf);

	if (is_eintr(vk_nwait)) {
		if (timeout_ns > 0)
			vk_clock += timeout_ns / 2;
		vk_trace("R eintr clk=%lld", vk_clock);
		errno = EINTR;
		return -1;
	}

	nr = 0;
	for (i = 0; i < nfds; i++) {
		pfds[i].revents = pfds[i].fd < 0 ? 0 : poll_revents(pfds[i].fd, pfds[i].events);
		if (pfds[i].revents)
			nr++;
	}
	if (nr == 0 && timeout_ns != 0) {
		if (vk_block_hook != NULL) {
			struct poll_ctx pc = { pfds, nfds };

			vk_block_hook(poll_ready_cb, &pc, timeout_ns < 0 ? -1 : vk_clock + timeout_ns);
		} else {
		if (timeout_ns < 0)
			vk_end("HANG");
		vk_clock += timeout_ns;
		}
		for (i = 0; i < nfds; i++) {
			pfds[i].revents = pfds[i].fd < 0 ? 0 : poll_revents(pfds[i].fd, pfds[i].events);
			if (pfds[i].revents)
				nr++;
		}
	}
	{
		char fb[1024];
		size_t fn = 0;
		int first = 1;

		fb[0] = 0;
		for (i = 0; i < nfds && fn < sizeof(fb) - 16; i++)
			if (pfds[i].revents) {
				fn += snprintf(fb + fn, sizeof(fb) - fn, "%s%d", first ? "" : ",", pfds[i].fd);
				first = 0;
			}
		vk_trace("R n=%d f=%s clk=%lld", nr, fb, vk_clock);
	}
	return nr;
}

int __wrap_poll(struct pollfd *pfds, nfds_t nfds, int timeout)
{
	return vk_poll_common("poll", pfds, nfds, timeout < 0 ? -1 : (long long)timeout * 1000000LL);
}

int __wrap_ppoll(struct pollfd *pfds, nfds_t nfds, const struct timespec *to, const void *sigmask)
{
	(void)sigmask;
	if (vk_faults.no_ppoll) {
		errno = ENOSYS;
		return -1;
	}
	return vk_poll_common("ppoll", pfds, nfds,
			      to == NULL ? -1 : (long long)to->tv_sec * 1000000000LL + to->tv_nsec);
}

/* ---- read / write / close / fcntl ---- */
ssize_t __real_read(int fd, void *buf, size_t count);
ssize_t __real_write(int fd, const void *buf, size_t count);
int __real_close(int fd);
int __real_fcntl(int fd, int cmd, ...);
int __real_setsockopt(int fd, int level, int optname, const void *optval, unsigned int optlen);

ssize_t __wrap_read(int fd, void *buf, size_t count)
{
	struct vk_fd *v;

	if (!vk_is_virtual(fd))
		return __real_read(fd, buf, count);
	v = vk_open(fd);
	if (v == NULL) {
		errno = EBADF;
		return -1;
	}
	if (vk_yield_hook != NULL) {
		vk_yield_hook();
		vk_trace("Fr %d", fd);
	}
	switch (v->kind) {
	case VK_EVENTFD:
		if (count < 8) {
			errno = EINVAL;
			return -1;
		}
		if (v->cnt == 0) {
			errno = EAGAIN;
			return -1;
		}
		{
			uint64_t x = v->cnt;

			memcpy(buf, &x, 8);
			v->cnt = 0;
		}
		return 8;
	case VK_PIPE_R:
		if (v->cnt == 0) {
			if (!v->peer_open)
				return 0;
			errno = EAGAIN;
			return -1;
		}
		{
			long long n = v->cnt < (long long)count ? v->cnt : (long long)count;

			memset(buf, 0, n);
			v->cnt -= n;
			return n;
		}
	case VK_TIMERFD:
		vk_cond(fd);
		if (!v->fired) {
			errno = EAGAIN;
			return -1;
		}
		{
			uint64_t one = 1;

			memcpy(buf, &one, 8);
			v->fired = 0;
			v->deadline = 0;
		}
		return 8;
	}
	errno = EAGAIN;
	return -1;
}

ssize_t __wrap_write(int fd, const void *buf, size_t count)
{
	struct vk_fd *v;

	if (!vk_is_virtual(fd))
		return __real_write(fd, buf, count);
	v = vk_open(fd);
	if (v == NULL) {
		errno = EBADF;
		return -1;
	}
	if (vk_yield_hook != NULL) {
		vk_yield_hook();
		vk_trace("Fw %d", fd);
	}
	switch (v->kind) {
	case VK_EVENTFD:
		if (count < 8) {
			errno = EINVAL;
			return -1;
		}
		{
			uint64_t x;

			memcpy(&x, buf, 8);
			v->cnt += x;
		}
		return 8;
	case VK_PIPE_W:
		if (!v->peer_open) {
			errno = EPIPE;
			return -1;
		}
		{
			struct vk_fd *r = &fds[v->peer];
			long long room = 65536 - r->cnt;
			long long n = (long long)count < room ? (long long)count : room;

			if (n <= 0) {
				errno = EAGAIN;
				return -1;
			}
			r->cnt += n;
			return n;
		}
	}
	errno = EAGAIN;
	return -1;
}

int __wrap_close(int fd)
{
	struct vk_fd *v;
	int e, i;

	if (!vk_is_virtual(fd))
		return __real_close(fd);
	v = vk_open(fd);
	if (v == NULL) {
		/* harness rule: the library never closes a descriptor it does not hold open (a double close; in a
		   multi-threaded program it closes whatever another thread was handed under that number meanwhile) */
		vk_trace("X close=%d: the descriptor is not open (closed twice)", fd);
		errno = EBADF;
		return -1;
	}
	v->closed = 1;
	if (v->kind == VK_PIPE_R || v->kind == VK_PIPE_W)
		fds[v->peer].peer_open = 0;
	for (e = 0; e < n_eps; e++) {
		struct vk_ep *ep = &eps[e];

		for (i = 0; i < ep->n; i++) {
			if (ep->ents[i].fd == fd) {
				memmove(&ep->ents[i], &ep->ents[i + 1],
					(ep->n - i - 1) * sizeof(struct vk_ent));
				ep->n--;
				i--;
			}
		}
	}
	vk_trace("K close=%d", fd);
	return 0;
}

/* descriptor flags as the library left them: bit 0 = O_NONBLOCK, bit 1 = FD_CLOEXEC; -1 = not an open virtual fd */
int vk_fd_flags(int fd)
{
	struct vk_fd *v = vk_is_virtual(fd) ? vk_open(fd) : NULL;

	if (v == NULL)
		return -1;
	return (v->nonblock ? 1 : 0) | (v->cloexec ? 2 : 0);
}

int __wrap_fcntl(int fd, int cmd, ...)
{
	va_list ap;
	long arg;
	struct vk_fd *v;

	va_start(ap, cmd);
	arg = va_arg(ap, long);
	va_end(ap);

	if (!vk_is_virtual(fd))
		return __real_fcntl(fd, cmd, arg);
	v = vk_open(fd);
	if (v == NULL) {
		errno = EBADF;
		return -1;
	}
	switch (cmd) {
	case F_GETFD:
		return v->cloexec ? FD_CLOEXEC : 0;
	case F_SETFD:
		v->cloexec = !!(arg & FD_CLOEXEC);
		return 0;
	case F_GETFL: {
		/* access mode as Linux reports it: pipe ends are read-only / write-only, the descriptor objects the
		   kernel creates (eventfd, timerfd, epoll) read-write; scripted user descriptors alternate, so that
		   code which confuses F_GETFL with F_GETFD (O_WRONLY == FD_CLOEXEC == 1) is exercised */
		int acc = O_RDWR;

		if (v->kind == VK_PIPE_R)
			acc = O_RDONLY;
		else if (v->kind == VK_PIPE_W)
			acc = O_WRONLY;
		else if (v->kind == VK_SCRIPTED)
			acc = (fd % 3 == 0) ? O_RDWR : (fd % 3 == 1) ? O_WRONLY : O_RDONLY;
		return acc | (v->nonblock ? O_NONBLOCK : 0);
	}
	case F_SETFL:
		v->nonblock = !!(arg & O_NONBLOCK);
		return 0;
	}
	errno = EINVAL;
	return -1;
}

int __wrap_setsockopt(int fd, int level, int optname, const void *optval, unsigned int optlen)
{
	if (!vk_is_virtual(fd))
		return __real_setsockopt(fd, level, optname, optval, optlen);
	errno = ENOTSOCK;
	return -1;
}
