/*
 * avl_drv -- drives /repo/src/iv_avl.c for the C16 correspondence check.
 *
 * stdin: one case per line:   <tree> | <op> <op> ...
 *   <tree>  pre-order tokens, '.' = NULL, integer = key; the shape is built
 *           directly (left/right/parent pointers set by the harness, heights
 *           exact), so any balanced shape can be the starting point.
 *   <op>    i<key> = iv_avl_tree_insert of a fresh node with that key
 *           d<key> = iv_avl_tree_delete of the node carrying that key
 *                    (rc 1, no call, when the key is absent)
 * stdout: one line per case; per op
 *   rc <rc> T <k:h:p | . ...> F <keys by next from min> B <keys by prev from max>
 * joined by " | ".  T is the pre-order dump with '.' for NULL (key:stored height:parent key,
 * -1 for the root).
 */
#include <stdio.h>
#include <unistd.h>
#include <stdlib.h>
#include <string.h>
#include <iv_avl.h>
#include <iv_list.h>

struct node {
	struct iv_avl_node	an;
	long			key;
};

static int cmp(const struct iv_avl_node *_a, const struct iv_avl_node *_b)
{
	const struct node *a = iv_container_of(_a, struct node, an);
	const struct node *b = iv_container_of(_b, struct node, an);

	if (a->key < b->key)
		return -1;
	if (a->key > b->key)
		return 1;
	return 0;
}

static struct iv_avl_tree tree;

static char *tok;
static char *save;

static struct iv_avl_node *build(struct iv_avl_node *parent)
{
	struct node *n;

	if (tok == NULL)
		return NULL;
	if (tok[0] == '.') {
		tok = strtok_r(NULL, " ", &save);
		return NULL;
	}
	n = malloc(sizeof(*n));
	n->key = atol(tok);
	n->an.parent = parent;
	tok = strtok_r(NULL, " ", &save);
	n->an.left = build(&n->an);
	n->an.right = build(&n->an);
	{
		int hl = n->an.left ? n->an.left->height : 0;
		int hr = n->an.right ? n->an.right->height : 0;
		n->an.height = 1 + (hl > hr ? hl : hr);
	}
	return &n->an;
}

static void dump(struct iv_avl_node *an, FILE *f)
{
	struct node *n;

	if (an == NULL) {
		fprintf(f, " .");
		return;
	}
	n = iv_container_of(an, struct node, an);
	fprintf(f, " %ld:%d:%ld", n->key, (int)an->height,
		an->parent ? iv_container_of(an->parent, struct node, an)->key : -1L);
	dump(an->left, f);
	dump(an->right, f);
}

static long count(struct iv_avl_node *an)
{
	return an ? 1 + count(an->left) + count(an->right) : 0;
}

static void free_all(struct iv_avl_node *an)
{
	if (an == NULL)
		return;
	free_all(an->left);
	free_all(an->right);
	free(iv_container_of(an, struct node, an));
}

static struct node *lookup(long key)
{
	struct iv_avl_node *an = tree.root;

	while (an != NULL) {
		struct node *n = iv_container_of(an, struct node, an);
		if (key < n->key)
			an = an->left;
		else if (key > n->key)
			an = an->right;
		else
			return n;
	}
	return NULL;
}

static void report(int rc)
{
	struct iv_avl_node *an;
	long limit = count(tree.root) + 2;
	long i;

	printf("rc %d T", rc);
	dump(tree.root, stdout);
	printf(" F");
	i = 0;
	iv_avl_tree_for_each (an, &tree) {
		printf(" %ld", iv_container_of(an, struct node, an)->key);
		if (++i > limit) {
			printf(" LOOP");
			break;
		}
	}
	printf(" B");
	i = 0;
	for (an = iv_avl_tree_max(&tree); an != NULL; an = iv_avl_tree_prev(an)) {
		printf(" %ld", iv_container_of(an, struct node, an)->key);
		if (++i > limit) {
			printf(" LOOP");
			break;
		}
	}
}

int main(void)
{
	char *line = NULL;
	size_t cap = 0;

	while (getline(&line, &cap, stdin) > 0) {
		char *bar;
		char *ops;
		char *o;
		char *osave;
		int first = 1;

		/* watchdog per case: a run-away loop in the library must not stall the whole check (the runner
		   records the unanswered case as crashed and resumes after it) */
		alarm(30);

		line[strcspn(line, "\n")] = 0;
		bar = strchr(line, '|');
		if (bar == NULL)
			continue;
		*bar = 0;
		ops = bar + 1;

		INIT_IV_AVL_TREE(&tree, cmp);
		tok = strtok_r(line, " ", &save);
		tree.root = build(NULL);

		for (o = strtok_r(ops, " ", &osave); o != NULL; o = strtok_r(NULL, " ", &osave)) {
			long key = atol(o + 1);
			int rc;

			if (o[0] == 'i') {
				/* a node object handed to insert holds arbitrary old contents: vary the garbage
				 * (0x01 looks like a stale height-1 leaf, as after delete + re-insert of the same object) */
				static const unsigned char garbage[4] = { 0xaa, 0x01, 0x00, 0x02 };
				struct node *n = malloc(sizeof(*n));
				memset(n, garbage[(unsigned long)key % 4], sizeof(*n));
				n->key = key;
				rc = iv_avl_tree_insert(&tree, &n->an);
				if (rc < 0)
					free(n);
			} else {
				struct node *n = lookup(key);
				if (n == NULL) {
					rc = 1;
				} else {
					iv_avl_tree_delete(&tree, &n->an);
					memset(n, 0xaa, sizeof(*n));
					free(n);
					rc = 0;
				}
			}
			if (!first)
				printf(" | ");
			first = 0;
			report(rc);
		}
		printf("\n");
		fflush(stdout);
		free_all(tree.root);
	}
	free(line);
	return 0;
}
