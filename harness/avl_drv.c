/*
 * avl_drv -- drives /repo/src/iv_avl.c for the C16 correspondence check.
 *
 * stdin: one case per line:   <tree> | <op> <op> ...
 *   <tree>  pre-order tokens, '.' = NULL, integer = key; the shape is built
 *           directly (left/right/parent pointers set by the harness, heights
 *           exact), so any balanced shape can be the starting point.
 *   <op>    i<key> = iv_avl_tree_insert of a fresh node with that key
 *           I<key> = iv_avl_tree_insert of the node object that is already linked in the tree
 *                    under that key (double registration); like i<key> when the key is absent
 *           d<key> = iv_avl_tree_delete of the node carrying that key
 *                    (rc 1, no call, when the key is absent)
 * stdout: one line per case; per op
 *   rc <rc> T <k:h:p | . ...> F <keys by next from min> B <keys by prev from max>
 * joined by " | ".  When the tree reaches more nodes than there are live objects (sharing, cycle), a traversal
 * does not end (LOOP) or the driver's own search does not end, the case stops there with " | STOP"; every case
 * also has a CPU-time watchdog of 2 s next to the 30 s wall-clock alarm.  T is the pre-order dump with '.' for NULL (key:stored height:parent key,
 * -1 for the root).
 *
 * avl_drv ptr: pointer-level output (compared with the extracted AvlPtrModel).  Every node object gets a
 * serial number when it is malloc'ed: 1, 2, ... per case; the start tree in allocation (= pre-order) order,
 * then one serial per i<key> op (consumed even when the insert is rejected).  Live node objects are kept in
 * a registry (rejected / deleted nodes leave it when they are freed).  Per op
 *   rc <rc> R <root> N <serial>:<key>:<height>:<left>:<right>:<parent> ... F <serials by next from min> B <serials by prev from max>
 * N lists ALL live objects of the registry by increasing serial (not by walking the tree); pointers are
 * printed as the serial of the object they point to, 0 for NULL, '?' for anything that is not a live
 * registered object (never dereferenced by the harness).  When the root or a field of a live object is such
 * a pointer the traversals are not run (F ? B ?); then, or when a traversal does not terminate (LOOP), the
 * structure is broken and the case ends there with " | STOP" (further operations on it could spin or write
 * anywhere).  ptr mode also arms a CPU-time watchdog of 2 s per case (SIGPROF kills the
 * driver, the runner records the unanswered case as crashed) next to the 30 s wall-clock alarm.
 */
#include <stdio.h>
#include <unistd.h>
#include <stdlib.h>
#include <string.h>
#include <stddef.h>
#include <sys/time.h>
#include <iv_avl.h>
#include <iv_list.h>

struct node {
	struct iv_avl_node	an;
	long			key;
	struct node		*all_prev;	/* list of all live objects of the case: nothing below walks a */
	struct node		*all_next;	/* possibly broken tree to count or free them */
};

static struct node all_head = { .all_prev = &all_head, .all_next = &all_head };
static long live;			/* number of live node objects */
static int broken;			/* a walk over the tree exceeded the number of live objects */

static void all_add(struct node *n)
{
	n->all_prev = all_head.all_prev;
	n->all_next = &all_head;
	all_head.all_prev->all_next = n;
	all_head.all_prev = n;
	live++;
}

static void all_del(struct node *n)
{
	n->all_prev->all_next = n->all_next;
	n->all_next->all_prev = n->all_prev;
	live--;
}

static unsigned long cmp_calls;

static int cmp(const struct iv_avl_node *_a, const struct iv_avl_node *_b)
{
	const struct node *a = iv_container_of(_a, struct node, an);
	const struct node *b = iv_container_of(_b, struct node, an);

	/* only the SIGN of the result is specified (as for qsort / strcmp comparators): the magnitude varies from call
	   to call, so that code which tests for exactly -1 / 1 is exposed */
	cmp_calls++;
	if (a->key < b->key)
		return -1 - (int)(cmp_calls % 3) * 1000;
	if (a->key > b->key)
		return 1 + (int)((cmp_calls >> 1) % 3) * 7;
	return 0;
}

static struct iv_avl_tree tree;

/* ---- ptr mode: registry of live node objects ---- */
static int ptr_mode;
static struct node **by_serial;		/* by_serial[s] = live object with serial s, or NULL */
static long by_serial_cap;
static long next_serial = 1;
static struct reg_ent {
	const struct node	*p;
	long			serial;
} *reg;					/* live objects sorted by address */
static long reg_n;
static long reg_cap;

static long reg_pos(const struct node *p)
{
	long lo = 0;
	long hi = reg_n;

	while (lo < hi) {
		long mid = lo + (hi - lo) / 2;
		if ((unsigned long)reg[mid].p < (unsigned long)p)
			lo = mid + 1;
		else
			hi = mid;
	}
	return lo;
}

/* serial of the live object an points to; 0 when it is not (the start of) a live registered object */
static long serial_of(const struct iv_avl_node *an)
{
	const struct node *p = (const struct node *)((const char *)an - offsetof(struct node, an));
	long i = reg_pos(p);

	return (i < reg_n && reg[i].p == p) ? reg[i].serial : 0;
}

static void reg_add(struct node *n)
{
	long s;
	long i;

	if (!ptr_mode)
		return;
	s = next_serial++;
	if (s >= by_serial_cap) {
		long ncap = by_serial_cap ? 2 * by_serial_cap : 64;
		by_serial = realloc(by_serial, ncap * sizeof(*by_serial));
		memset(by_serial + by_serial_cap, 0, (ncap - by_serial_cap) * sizeof(*by_serial));
		by_serial_cap = ncap;
	}
	if (reg_n == reg_cap) {
		reg_cap = reg_cap ? 2 * reg_cap : 64;
		reg = realloc(reg, reg_cap * sizeof(*reg));
	}
	by_serial[s] = n;
	i = reg_pos(n);
	memmove(reg + i + 1, reg + i, (reg_n - i) * sizeof(*reg));
	reg[i].p = n;
	reg[i].serial = s;
	reg_n++;
}

static void reg_del(struct node *n)
{
	long i;

	if (!ptr_mode)
		return;
	i = reg_pos(n);
	if (i < reg_n && reg[i].p == n) {
		by_serial[reg[i].serial] = NULL;
		memmove(reg + i, reg + i + 1, (reg_n - i - 1) * sizeof(*reg));
		reg_n--;
	}
}

/* returns 0 when an points to something that is not a live registered object */
static int print_ptr(const char *sep, const struct iv_avl_node *an)
{
	long s;

	if (an == NULL) {
		printf("%s0", sep);
		return 1;
	}
	s = serial_of(an);
	if (s)
		printf("%s%ld", sep, s);
	else
		printf("%s?", sep);
	return s != 0;
}

static char *tok;
static char *save;

static struct iv_avl_node *build(struct iv_avl_node *parent)
{
	struct node *n;

	if (tok == NULL)
		return NULL;
	if (tok[0] == '.') {
		tok = strtok_r(NULL, " ", &save);
		return NULL;
	}
	n = malloc(sizeof(*n));
	reg_add(n);
	all_add(n);
	n->key = atol(tok);
	n->an.parent = parent;
	tok = strtok_r(NULL, " ", &save);
	n->an.left = build(&n->an);
	n->an.right = build(&n->an);
	{
		int hl = n->an.left ? n->an.left->height : 0;
		int hr = n->an.right ? n->an.right->height : 0;
		n->an.height = 1 + (hl > hr ? hl : hr);
	}
	return &n->an;
}

static long dump_budget;

static void dump(struct iv_avl_node *an, FILE *f)
{
	struct node *n;

	if (broken)
		return;
	if (an == NULL) {
		fprintf(f, " .");
		return;
	}
	if (dump_budget-- <= 0) {
		/* more nodes reachable than live objects: sharing or a cycle */
		fprintf(f, " LOOP");
		broken = 1;
		return;
	}
	n = iv_container_of(an, struct node, an);
	fprintf(f, " %ld:%d:%ld", n->key, (int)an->height,
		an->parent ? iv_container_of(an->parent, struct node, an)->key : -1L);
	dump(an->left, f);
	dump(an->right, f);
}

static struct node *lookup(long key)
{
	struct iv_avl_node *an = tree.root;
	long steps = 0;

	while (an != NULL) {
		struct node *n = iv_container_of(an, struct node, an);
		if (++steps > live + 2) {
			broken = 1;
			return NULL;
		}
		if (key < n->key)
			an = an->left;
		else if (key > n->key)
			an = an->right;
		else
			return n;
	}
	return NULL;
}

static void report(int rc)
{
	struct iv_avl_node *an;
	long limit = live + 2;
	long i;

	printf("rc %d T", rc);
	dump_budget = live;
	dump(tree.root, stdout);
	if (broken)
		return;
	printf(" F");
	i = 0;
	iv_avl_tree_for_each (an, &tree) {
		printf(" %ld", iv_container_of(an, struct node, an)->key);
		if (++i > limit) {
			printf(" LOOP");
			broken = 1;
			break;
		}
	}
	printf(" B");
	i = 0;
	for (an = iv_avl_tree_max(&tree); an != NULL; an = iv_avl_tree_prev(an)) {
		printf(" %ld", iv_container_of(an, struct node, an)->key);
		if (++i > limit) {
			printf(" LOOP");
			broken = 1;
			break;
		}
	}
}

/* returns 0 when the root or a field of a live object points to a non-live object (the traversals are then
 * not run: F ? B ?) or when a traversal did not terminate */
static int report_ptr(int rc)
{
	struct iv_avl_node *an;
	long limit = reg_n + 2;
	int fields_ok;
	long s;
	long i;
	int sane = 1;

	printf("rc %d R", rc);
	fields_ok = print_ptr(" ", tree.root);
	printf(" N");
	for (s = 1; s < next_serial; s++) {
		struct node *n = by_serial[s];

		if (n == NULL)
			continue;
		printf(" %ld:%ld:%d", s, n->key, (int)n->an.height);
		fields_ok &= print_ptr(":", n->an.left);
		fields_ok &= print_ptr(":", n->an.right);
		fields_ok &= print_ptr(":", n->an.parent);
	}
	printf(" F");
	i = 0;
	if (!fields_ok) {
		printf(" ?");
		sane = 0;
	} else {
		iv_avl_tree_for_each (an, &tree) {
			if (serial_of(an) == 0) {
				printf(" ?");
				sane = 0;
				break;
			}
			printf(" %ld", serial_of(an));
			if (++i > limit) {
				printf(" LOOP");
				sane = 0;
				break;
			}
		}
	}
	printf(" B");
	i = 0;
	if (!fields_ok) {
		printf(" ?");
		sane = 0;
	} else {
		for (an = iv_avl_tree_max(&tree); an != NULL; an = iv_avl_tree_prev(an)) {
			if (serial_of(an) == 0) {
				printf(" ?");
				sane = 0;
				break;
			}
			printf(" %ld", serial_of(an));
			if (++i > limit) {
				printf(" LOOP");
				sane = 0;
				break;
			}
		}
	}
	return sane;
}

int main(int argc, char **argv)
{
	char *line = NULL;
	size_t cap = 0;

	ptr_mode = argc > 1 && strcmp(argv[1], "ptr") == 0;

	while (getline(&line, &cap, stdin) > 0) {
		char *bar;
		char *ops;
		char *o;
		char *osave;
		int first = 1;

		/* watchdog per case: a run-away loop in the library must not stall the whole check (the runner
		   records the unanswered case as crashed and resumes after it) */
		alarm(30);
		{
			/* and 2 s of CPU time per case (SIGPROF kills the driver) */
			struct itimerval it = { { 0, 0 }, { 2, 0 } };
			setitimer(ITIMER_PROF, &it, NULL);
		}

		line[strcspn(line, "\n")] = 0;
		bar = strchr(line, '|');
		if (bar == NULL)
			continue;
		*bar = 0;
		ops = bar + 1;

		INIT_IV_AVL_TREE(&tree, cmp);
		next_serial = 1;
		tok = strtok_r(line, " ", &save);
		tree.root = build(NULL);

		for (o = strtok_r(ops, " ", &osave); o != NULL; o = strtok_r(NULL, " ", &osave)) {
			long key = atol(o + 1);
			struct node *ln = (o[0] == 'I' || o[0] == 'd') ? lookup(key) : NULL;
			int rc;

			if (broken) {
				/* the driver's own search walked more nodes than there are live objects */
				printf("%sSTOP", first ? "" : " | ");
				break;
			}
			if (o[0] == 'I' && ln != NULL) {
				/* double registration: the LIVE node object that holds the key (leaf, interior node
				 * or root) is handed to insert again; insert must return -1 and store nothing.
				 * Nothing is allocated and nothing is freed, whatever insert returns. */
				rc = iv_avl_tree_insert(&tree, &ln->an);
			} else if (o[0] == 'i' || o[0] == 'I') {
				/* a node object handed to insert holds arbitrary old contents: vary the garbage
				 * (0x01 looks like a stale height-1 leaf, as after delete + re-insert of the same object) */
				static const unsigned char garbage[4] = { 0xaa, 0x01, 0x00, 0x02 };
				struct node *n = malloc(sizeof(*n));
				reg_add(n);
				memset(n, garbage[(unsigned long)key % 4], sizeof(*n));
				n->key = key;
				all_add(n);
				rc = iv_avl_tree_insert(&tree, &n->an);
				if (rc < 0) {
					reg_del(n);
					all_del(n);
					free(n);
				}
			} else {
				struct node *n = ln;
				if (n == NULL) {
					rc = 1;
				} else {
					iv_avl_tree_delete(&tree, &n->an);
					reg_del(n);
					all_del(n);
					memset(n, 0xaa, sizeof(*n));
					free(n);
					rc = 0;
				}
			}
			if (!first)
				printf(" | ");
			first = 0;
			if (ptr_mode) {
				if (!report_ptr(rc)) {
					printf(" | STOP");
					break;
				}
			} else {
				report(rc);
				if (broken) {
					/* sharing / cycle / endless traversal: further operations could spin or write anywhere */
					printf(" | STOP");
					break;
				}
			}
		}
		printf("\n");
		fflush(stdout);
		/* free every live object (also the ones a broken tree no longer reaches, and each only once) */
		while (reg_n > 0)
			reg_del(by_serial[reg[reg_n - 1].serial]);
		while (all_head.all_next != &all_head) {
			struct node *n = all_head.all_next;

			all_del(n);
			free(n);
		}
		broken = 0;
	}
	free(line);
	free(by_serial);
	free(reg);
	return 0;
}
