/*
 * vk_smoke -- the same micro-scenarios on kernel descriptors (eventfd, pipes, timerfd, epoll, poll) are run
 * twice: linked against the virtual kernel (vk.c, -Wl,--wrap) and against the real Linux kernel.  Both print
 * one line per probe; the check diffs the two outputs.  This validates the assumptions the virtual kernel (and
 * its Coq twin Core/Kernel.v) makes about Linux: level-triggered epoll, EPOLLHUP/EPOLLERR reported regardless
 * of the mask, EPOLLONESHOT disarming and MOD re-arming, maxevents truncation, eventfd counter semantics,
 * pipe read/EOF/HUP/capacity, timerfd absolute arming / disarming / read, poll revents incl. POLLHUP/POLLNVAL.
 * Timeouts are zero except where time must pass (then both sides use short real/virtual timeouts whose
 * outcome does not depend on the exact clock).
 */
#define _GNU_SOURCE
#include <errno.h>
#include <fcntl.h>
#include <poll.h>
#include <stdint.h>
#include <stdio.h>
#include <string.h>
#include <sys/epoll.h>
#include <sys/eventfd.h>
#include <sys/syscall.h>
#include <sys/timerfd.h>
#include <time.h>
#include <unistd.h>

#ifdef VK_SMOKE_VIRTUAL
#include <stdarg.h>
#include <stdlib.h>
#include "vk.h"
void vk_trace(const char *fmt, ...) { (void)fmt; }
void vk_end(const char *why) { printf("VKEND %s\n", why); exit(0); }
void vk_before_wait(int n) { (void)n; }
int vk_rotation(int n) { (void)n; return 0; }
int vk_is_main_pollfds(const void *p) { (void)p; return 1; }
#endif

static int ep;

static void show_ep(const char *what, int timeout_ms, int maxev)
{
	struct epoll_event ev[8];
	int n = epoll_wait(ep, ev, maxev, timeout_ms);
	int i;
	unsigned mask = 0;

	printf("%s: n=%d", what, n);
	/* order-independent: print the events per tag */
	for (i = 0; i < n; i++)
		mask |= 1u << ev[i].data.u32;
	for (i = 0; i < 8; i++) {
		int k;

		if (!(mask & (1u << i)))
			continue;
		for (k = 0; k < n; k++)
			if (ev[k].data.u32 == (unsigned)i)
				printf(" [%d:%s%s%s%s]", i, ev[k].events & EPOLLIN ? "i" : "", ev[k].events & EPOLLOUT ? "o" : "",
				       ev[k].events & EPOLLHUP ? "h" : "", ev[k].events & EPOLLERR ? "e" : "");
	}
	printf("\n");
}

static void add(int fd, unsigned tag, unsigned events, int op)
{
	struct epoll_event ev;
	int rc;

	memset(&ev, 0, sizeof(ev));
	ev.events = events;
	ev.data.u32 = tag;
	rc = epoll_ctl(ep, op, fd, &ev);
	printf("ctl op=%d tag=%u -> %d%s\n", op, tag, rc,
	       rc < 0 ? (errno == EEXIST ? " EEXIST" : errno == ENOENT ? " ENOENT" : errno == EBADF ? " EBADF" : " other") : "");
}

static void show_poll(const char *what, int fd, short events)
{
	struct pollfd p = { fd, events, 0 };
	int n = poll(&p, 1, 0);

	printf("%s: n=%d %s%s%s%s%s\n", what, n, p.revents & POLLIN ? "i" : "", p.revents & POLLOUT ? "o" : "",
	       p.revents & POLLHUP ? "h" : "", p.revents & POLLERR ? "e" : "", p.revents & POLLNVAL ? "v" : "");
}

int main(void)
{
	int efd, p[2], q[2], tfd, i;
	uint64_t v;
	char buf[2048];
	struct itimerspec its;
	struct timespec now;
	ssize_t r;

	setvbuf(stdout, NULL, _IONBF, 0);
	ep = epoll_create(1);

	/* eventfd */
	efd = syscall(__NR_eventfd2, 0, EFD_CLOEXEC | EFD_NONBLOCK);
	add(efd, 0, EPOLLIN, EPOLL_CTL_ADD);
	add(efd, 0, EPOLLIN, EPOLL_CTL_ADD);
	show_ep("eventfd empty", 0, 8);
	v = 1;
	r = write(efd, &v, 8);
	r = write(efd, &v, 8);
	show_ep("eventfd 2 posts", 0, 8);
	show_ep("eventfd level-triggered again", 0, 8);
	r = read(efd, &v, 8);
	printf("eventfd read -> %zd value=%llu\n", r, (unsigned long long)v);
	r = read(efd, &v, 8);
	printf("eventfd read empty -> %zd %s\n", r, r < 0 && errno == EAGAIN ? "EAGAIN" : "?");
	show_ep("eventfd after read", 0, 8);

	/* one-shot kick on an always-readable eventfd */
	v = 1;
	r = write(efd, &v, 8);
	add(efd, 0, 0, EPOLL_CTL_MOD);
	show_ep("readable but empty mask", 0, 8);
	add(efd, 0, EPOLLIN | EPOLLONESHOT, EPOLL_CTL_MOD);
	show_ep("oneshot armed", 0, 8);
	show_ep("oneshot disarmed after report", 0, 8);
	add(efd, 0, EPOLLIN | EPOLLONESHOT, EPOLL_CTL_MOD);
	show_ep("oneshot re-armed by MOD", 0, 8);
	add(efd, 0, 0, EPOLL_CTL_DEL);
	add(efd, 0, 0, EPOLL_CTL_DEL);
	show_ep("after DEL", 0, 8);

	/* pipe: data, EOF, HUP with an empty mask */
	if (pipe(p) < 0)
		return 2;
	fcntl(p[0], F_SETFL, O_NONBLOCK);
	fcntl(p[1], F_SETFL, O_NONBLOCK);
	add(p[0], 1, EPOLLIN, EPOLL_CTL_ADD);
	show_ep("pipe empty", 0, 8);
	r = write(p[1], "abc", 3);
	show_ep("pipe 3 bytes", 0, 8);
	r = read(p[0], buf, 2);
	printf("pipe read 2 -> %zd\n", r);
	show_ep("pipe 1 byte left", 0, 8);
	r = read(p[0], buf, 1024);
	printf("pipe read rest -> %zd\n", r);
	r = read(p[0], buf, 1024);
	printf("pipe read empty -> %zd %s\n", r, r < 0 && errno == EAGAIN ? "EAGAIN" : "?");
	show_poll("poll pipe empty in", p[0], POLLIN);
	show_poll("poll pipe write end out", p[1], POLLOUT);
	add(p[0], 1, 0, EPOLL_CTL_MOD);
	close(p[1]);
	show_ep("pipe writer closed, empty mask (HUP regardless of mask)", 0, 8);
	show_poll("poll pipe writer closed, events=0", p[0], 0);
	r = read(p[0], buf, 16);
	printf("pipe read after writer closed -> %zd\n", r);
	add(p[0], 1, 0, EPOLL_CTL_DEL);

	/* pipe capacity: 65536 bytes, then EAGAIN */
	if (pipe(q) < 0)
		return 2;
	fcntl(q[0], F_SETFL, O_NONBLOCK);
	fcntl(q[1], F_SETFL, O_NONBLOCK);
	memset(buf, 0, sizeof(buf));
	{
		long total = 0;

		for (i = 0; i < 100000; i++) {
			r = write(q[1], buf, 1);
			if (r != 1)
				break;
			total++;
		}
		printf("pipe capacity in 1-byte writes: %ld then %s\n", total, r < 0 && errno == EAGAIN ? "EAGAIN" : "?");
	}
	show_poll("poll full pipe write end", q[1], POLLOUT);
	r = read(q[0], buf, 1024);
	printf("pipe read 1024 -> %zd\n", r);

	/* maxevents truncation with two ready descriptors */
	add(efd, 0, EPOLLIN, EPOLL_CTL_ADD);
	add(q[0], 2, EPOLLIN, EPOLL_CTL_ADD);
	{
		struct epoll_event ev[8];
		int n = epoll_wait(ep, ev, 1, 0);

		printf("two ready, maxevents 1: n=%d\n", n);
	}
	show_ep("two ready, maxevents 8", 0, 8);
	add(q[0], 2, 0, EPOLL_CTL_DEL);
	add(efd, 0, 0, EPOLL_CTL_DEL);

	/* timerfd: absolute deadline in the past fires at once; disarm clears; read returns 8 then EAGAIN */
	tfd = timerfd_create(CLOCK_MONOTONIC, TFD_CLOEXEC | TFD_NONBLOCK);
	add(tfd, 3, EPOLLIN, EPOLL_CTL_ADD);
	show_ep("timerfd unarmed", 0, 8);
	memset(&its, 0, sizeof(its));
	its.it_value.tv_nsec = 1;
	timerfd_settime(tfd, TFD_TIMER_ABSTIME, &its, NULL);
	show_ep("timerfd deadline in the past", 50, 8);
	r = read(tfd, &v, 8);
	printf("timerfd read -> %zd\n", r);
	r = read(tfd, &v, 8);
	printf("timerfd read again -> %zd %s\n", r, r < 0 && errno == EAGAIN ? "EAGAIN" : "?");
	show_ep("timerfd after read", 0, 8);
	timerfd_settime(tfd, TFD_TIMER_ABSTIME, &its, NULL);
	memset(&its, 0, sizeof(its));
	timerfd_settime(tfd, TFD_TIMER_ABSTIME, &its, NULL);
	show_ep("timerfd fired then disarmed", 0, 8);
	clock_gettime(CLOCK_MONOTONIC, &now);
	its.it_value = now;
	its.it_value.tv_sec += 3600;
	timerfd_settime(tfd, TFD_TIMER_ABSTIME, &its, NULL);
	show_ep("timerfd far future, 20 ms wait", 20, 8);
	its.it_value = now;
	its.it_value.tv_nsec += 30000000;
	if (its.it_value.tv_nsec >= 1000000000) {
		its.it_value.tv_nsec -= 1000000000;
		its.it_value.tv_sec++;
	}
	timerfd_settime(tfd, TFD_TIMER_ABSTIME, &its, NULL);
	show_ep("timerfd in 30 ms, wait up to 2 s", 2000, 8);

	/* closed descriptor */
	close(efd);
	show_poll("poll closed descriptor", efd, POLLIN);
	add(efd, 0, EPOLLIN, EPOLL_CTL_ADD);
	return 0;
}
