/*
 * list_drv -- drives the intrusive list primitives of /repo/src/include/iv_list.h and
 * __iv_list_steal_elements (/repo/src/iv_private.h) for the C18 correspondence stage `LIST` (against the
 * extracted Small/ListPtrModel.v): random operation sequences over a pool of nodes, any of which can serve
 * as a list head; after every operation the next / prev fields of EVERY node are dumped as node indices.
 *
 * stdin: one case per line
 *     LIST n=<pool size> <op> <op> ...
 *   i<k>        INIT_IV_LIST_HEAD(node k)
 *   a<k>,<h>    iv_list_add(k, h)               t<k>,<h>   iv_list_add_tail(k, h)
 *   d<k>        iv_list_del(k)                  D<k>       iv_list_del_init(k)
 *   e<h>        iv_list_empty(h)                -> =0 / =1
 *   s<a>,<h>    iv_list_splice(a, h)            S<a>,<h>   iv_list_splice_init(a, h)
 *   p<a>,<h>    iv_list_splice_tail(a, h)       P<a>,<h>   iv_list_splice_tail_init(a, h)
 *   x<o>,<n>    __iv_list_steal_elements(o, n)
 *   f<h>        iv_list_for_each over h         -> =<visited nodes, '.'-separated>
 *   F<h>:<v.v>  iv_list_for_each_safe over h, iv_list_del of the current element when it is one of the v
 *   G<h>:<v.v>  the same with iv_list_del_init
 * stdout: one line per case, one segment per op joined by " | ":
 *     <op>[=result] <next>,<prev>;<next>,<prev>;...      (one pair per node; '-' = NULL, '?' = not a pool node)
 *   a loop that runs more than n+1 times prints <op>=LOOP and ends the case.
 *
 * Every node is malloc'ed on its own inside a struct with guard words before and after the iv_list_head
 * (checked after every operation; ASan guards the allocation itself).  Both fields start as NULL.
 */
#include <stdio.h>
#include <stdlib.h>
#include <string.h>
#include <stdint.h>
#include <iv_list.h>
#include "iv_private.h"

#define MAXN 64
#define GUARD1 0x5a5a5a5aa5a5a5a5ULL
#define GUARD2 0xc3c3c3c33c3c3c3cULL

struct item {
	uint64_t		guard1;
	struct iv_list_head	l;
	uint64_t		guard2;
};

static struct item *pool[MAXN];
static int npool;

static int index_of(const struct iv_list_head *p)
{
	int i;

	for (i = 0; i < npool; i++) {
		if (p == &pool[i]->l)
			return i;
	}
	return -1;
}

static void put_ptr(const struct iv_list_head *p)
{
	if (p == NULL) {
		putchar('-');
	} else {
		int i = index_of(p);

		if (i < 0)
			putchar('?');
		else
			printf("%d", i);
	}
}

static void dump(void)
{
	int i;

	for (i = 0; i < npool; i++) {
		if (pool[i]->guard1 != GUARD1 || pool[i]->guard2 != GUARD2) {
			fflush(stdout);
			fprintf(stderr, "LIST-CHECK-FAILED: guard word of node %d overwritten\n", i);
			exit(3);
		}
		if (i)
			putchar(';');
		put_ptr(pool[i]->l.next);
		putchar(',');
		put_ptr(pool[i]->l.prev);
	}
}

static struct iv_list_head *node(const char *s, char **end)
{
	long k = strtol(s, end, 10);

	if (*end == s || k < 0 || k >= npool) {
		fprintf(stderr, "list_drv: bad node in %s\n", s);
		exit(2);
	}
	return &pool[k]->l;
}

static int is_victim(const struct iv_list_head *ilh, const int *victims, int nv)
{
	int i = index_of(ilh);
	int k;

	for (k = 0; k < nv; k++) {
		if (victims[k] == i)
			return 1;
	}
	return 0;
}

static void run_case(char *line)
{
	char *tok, *save;
	int first = 1;
	int i;

	tok = strtok_r(line, " ", &save);
	if (tok == NULL || strcmp(tok, "LIST") != 0) {
		fprintf(stderr, "list_drv: bad case\n");
		exit(2);
	}
	tok = strtok_r(NULL, " ", &save);
	if (tok == NULL || strncmp(tok, "n=", 2) != 0 || atoi(tok + 2) < 1 || atoi(tok + 2) > MAXN) {
		fprintf(stderr, "list_drv: bad pool size\n");
		exit(2);
	}
	npool = atoi(tok + 2);
	for (i = 0; i < npool; i++) {
		pool[i] = malloc(sizeof(struct item));
		if (pool[i] == NULL)
			exit(2);
		pool[i]->guard1 = GUARD1;
		pool[i]->guard2 = GUARD2;
		pool[i]->l.next = NULL;
		pool[i]->l.prev = NULL;
	}

	for (tok = strtok_r(NULL, " ", &save); tok != NULL; tok = strtok_r(NULL, " ", &save)) {
		char *p = tok + 1;
		char *end;
		struct iv_list_head *a, *b = NULL;
		int victims[MAXN];
		int nv = 0;
		int loop = 0;

		if (!first)
			fputs(" | ", stdout);
		first = 0;
		fputs(tok, stdout);

		a = node(p, &end);
		if (*end == ',') {
			b = node(end + 1, &end);
		} else if (*end == ':') {
			end++;
			while (*end) {
				char *e2;

				victims[nv++] = index_of(node(end, &e2));
				end = e2;
				if (*end == '.')
					end++;
			}
		}
		if (*end != 0 || (strchr("atsSpPx", tok[0]) != NULL && b == NULL)) {
			fprintf(stderr, "list_drv: bad op %s\n", tok);
			exit(2);
		}

		switch (tok[0]) {
		case 'i':
			INIT_IV_LIST_HEAD(a);
			break;
		case 'a':
			iv_list_add(a, b);
			break;
		case 't':
			iv_list_add_tail(a, b);
			break;
		case 'd':
			iv_list_del(a);
			break;
		case 'D':
			iv_list_del_init(a);
			break;
		case 'e':
			printf("=%d", iv_list_empty(a));
			break;
		case 's':
			iv_list_splice(a, b);
			break;
		case 'S':
			iv_list_splice_init(a, b);
			break;
		case 'p':
			iv_list_splice_tail(a, b);
			break;
		case 'P':
			iv_list_splice_tail_init(a, b);
			break;
		case 'x':
			__iv_list_steal_elements(a, b);
			break;
		case 'f': {
			struct iv_list_head *ilh;
			int visited[MAXN + 2];
			int n = 0;

			iv_list_for_each (ilh, a) {
				if (n > npool) {
					loop = 1;
					break;
				}
				visited[n++] = index_of(ilh);
			}
			if (!loop) {
				putchar('=');
				for (i = 0; i < n; i++)
					printf("%s%d", i ? "." : "", visited[i]);
			}
			break;
		}
		case 'F':
		case 'G': {
			struct iv_list_head *ilh, *ilh2;
			int visited[MAXN + 2];
			int n = 0;

			iv_list_for_each_safe (ilh, ilh2, a) {
				if (n > npool) {
					loop = 1;
					break;
				}
				visited[n++] = index_of(ilh);
				if (is_victim(ilh, victims, nv)) {
					if (tok[0] == 'F')
						iv_list_del(ilh);
					else
						iv_list_del_init(ilh);
				}
			}
			if (!loop) {
				putchar('=');
				for (i = 0; i < n; i++)
					printf("%s%d", i ? "." : "", visited[i]);
			}
			break;
		}
		default:
			fprintf(stderr, "list_drv: bad op %s\n", tok);
			exit(2);
		}
		if (loop) {
			fputs("=LOOP", stdout);
			break;
		}
		putchar(' ');
		dump();
	}
	putchar('\n');
	fflush(stdout);
	for (i = 0; i < npool; i++)
		free(pool[i]);
}

int main(void)
{
	static char line[1 << 16];

	while (fgets(line, sizeof(line), stdin) != NULL) {
		line[strcspn(line, "\n")] = 0;
		run_case(line);
	}
	return 0;
}
