/*
 * ivsim -- scenario interpreter driving the real ivykis library on top of the
 * virtual kernel (vk.c).  One scenario per line on stdin, one process per
 * scenario (the library keeps process-global one-way state), one output line
 * per scenario: trace events joined by " | ".
 *
 * Scenario line:  sections separated by ';'
 *   B<be>          poll method: et (epoll-timerfd) | ep (epoll) | pp (ppoll) | po (poll)
 *   X<f>,<f>..     faults: nopwait2 permpwait2 notimerfd noppoll noeventfd2 noeventfd nocreate1
 *                          emfile eintr@<k> ctleintr@<k>
 *                          efdok=<k>  (noeventfd2 / noeventfd take effect after k eventfds were created)
 *   M<n>           stop after n main waits (default 60)
 *   S <actions>    set-up actions, executed before iv_main()
 *   H<key>:<actions>/<actions>/..   script of handler <key>: the k-th invocation runs the k-th
 *                  list, the last one repeats.  key = f<hid> (descriptor handler id 0-9a-f) |
 *                  t<j> | k<j> | e<j> | r<j>  (timer / task / event / raw event object j)
 *   W<k>:<kactions>   external (kernel-side) actions applied on entry of the k-th main wait
 *   O<k>:<rot>     rotation of the order in which ready descriptors are reported at wait k
 * Actions (every action is guarded: when the API does not allow it in the current
 * state it is skipped; the same guard is evaluated by the model):
 *   fr<i> ft<i> fu<i>      iv_fd_register / iv_fd_register_try / iv_fd_unregister of descriptor object i
 *   fh<i><b><hid|->        set handler of band b (i|o|e) to handler id / NULL
 *   fc<i>=<c>              set the cookie of descriptor object i to cookie value c
 *   fx<i>                  free the (unregistered) struct and allocate a fresh poisoned one
 *   ks<i>=<conds>          kernel: set ground-truth conditions of descriptor 100+i (letters i o h e)
 *   kc<i>  ko<i>           kernel: close (only while object i is unregistered) / (re)open descriptor 100+i
 *                          (fr<i> is skipped while the descriptor is closed; ft<i> is how a bad descriptor is probed)
 *   tr<j>@<ns> tr<j>+<ns>  iv_timer_register with absolute / now-relative expiry;  tu<j>;  tx<j>
 *   kr<j> ku<j> kx<j>      iv_task_register / unregister / free+fresh (IV_TASK_INIT stamps the epoch)
 *   er<j> eu<j> ep<j> ex<j>  iv_event register / unregister / post / free+fresh
 *   rr<j> ru<j> rp<j> rx<j>  iv_event_raw register / unregister / post / free+fresh
 *   q                      iv_quit
 *   ca<ns>                 advance the virtual clock;  ci iv_invalidate_now;  cv iv_validate_now
 * Trace events: see vk.c (W/R/K) and below (C callbacks, A results, E end, D teardown).
 */
#define _GNU_SOURCE
#include <errno.h>
#include <poll.h>
#include <stdarg.h>
#include <stdio.h>
#include <stdlib.h>
#include <string.h>
#include <sys/wait.h>
#include <unistd.h>
#include <iv.h>
#include <iv_event.h>
#include <iv_event_raw.h>
#include "iv_private.h"
#include "vk.h"

#define NOBJ	16
#define NHID	16
#define MAXSCR	8
#define MAXACT	24
#define MAXW	64

static int first_seg = 1;

/*
 * Run-length compression of raw-event posts: consecutive identical "a rp<j>" segments (bursts of posts) are printed
 * as one segment "a rp<j> *<n>", so that bursts beyond a pipe buffer (65536 posts) fit below the run-away guard.
 * The extracted model's printer does the same (ocaml/core_drv.ml.in).  Only these segments are held back; everything
 * else is printed and flushed at once, so a crash loses at most the pending post segment.
 */
static char pend[32];
static int pendn;
static int nseg;

static void emit_seg(const char *text)
{
	if (++nseg > 20000 + 8 * (vk_wait_limit > 1000 ? vk_wait_limit : 0)) {
		/* a run-away loop in the library: cut the trace (scenarios that ask for more than 1000 waits get room
		   for eight segments per wait on top) */
		fputs(" | OVERFLOW", stdout);
		fflush(stdout);
		_exit(3);
	}
	if (!first_seg)
		fputs(" | ", stdout);
	first_seg = 0;
	fputs(text, stdout);
}

static void flush_pend(void)
{
	if (pendn) {
		char buf[64];

		if (pendn > 1)
			snprintf(buf, sizeof(buf), "%s *%d", pend, pendn);
		else
			snprintf(buf, sizeof(buf), "%s", pend);
		pendn = 0;
		emit_seg(buf);
	}
}

void vk_trace(const char *fmt, ...)
{
	va_list ap;
	char text[8192];

	va_start(ap, fmt);
	vsnprintf(text, sizeof(text), fmt, ap);
	va_end(ap);
	if (!strncmp(text, "a rp", 4) && strlen(text) < sizeof(pend)) {
		if (pendn && !strcmp(text, pend)) {
			pendn++;
			return;
		}
		flush_pend();
		strcpy(pend, text);
		pendn = 1;
		return;
	}
	flush_pend();
	emit_seg(text);
	fflush(stdout);
}

void vk_end(const char *why)
{
	vk_trace("%s", why);
	fflush(stdout);
#ifdef VERIF_COVERAGE
	{ extern void __gcov_dump(void); __gcov_dump(); }
#endif
	_exit(0);
}

/* ---- scenario ---- */
struct script {
	int	nlists;
	int	nact[MAXSCR];
	char	**act[MAXSCR];		/* grown on demand: action lists have no length limit */
	int	invocations;
};

static struct script hs_fd[NHID];	/* key f<hid> */
static struct script hs_t[NOBJ], hs_k[NOBJ], hs_e[NOBJ], hs_r[NOBJ];
static struct script setup;
static struct script wacts[MAXW];	/* W<k> (one list each) */
static int rots[MAXW];
static char backend[8] = "et";

/* ---- objects ---- */
struct cookie {
	char	kind;		/* 'c' plain cookie value, 't' 'k' 'e' 'r' object */
	int	id;
};

static struct cookie cookies[NOBJ];		/* cookie values for descriptors */
static struct iv_fd *ofd[NOBJ];
static struct iv_timer *otm[NOBJ];
static struct cookie ctm[NOBJ];
static struct iv_task *otk[NOBJ];
static struct cookie ctk[NOBJ];
static struct iv_event *oev[NOBJ];
static struct cookie cev[NOBJ];
static int ev_reg[NOBJ];
static struct iv_event_raw *orw[NOBJ];
static struct cookie crw[NOBJ];
static int rw_reg[NOBJ];

static struct iv_state *st;

static void run_script(struct script *s);

/* trampolines: descriptor handlers are identified by (hid, band) */
static void fd_callback(int hid, int band, void *cookie)
{
	static const char bl[] = "ioe";
	struct cookie *c = cookie;
	struct iv_fd_ *h = st->handled_fd;
	int i, obj = -1;

	for (i = 0; i < NOBJ; i++)
		if ((void *)ofd[i] == (void *)h)
			obj = i;
	vk_trace("Cf%d%c h%x c%d", obj, bl[band], hid, c != NULL && c->kind == 'c' ? c->id : -1);
	run_script(&hs_fd[hid]);
}

#define TR(h, b) static void tramp_##h##_##b(void *c) { fd_callback(0x##h, b, c); }
#define TR3(h) TR(h, 0) TR(h, 1) TR(h, 2)
TR3(0) TR3(1) TR3(2) TR3(3) TR3(4) TR3(5) TR3(6) TR3(7)
TR3(8) TR3(9) TR3(a) TR3(b) TR3(c) TR3(d) TR3(e) TR3(f)
#define TE(h) { tramp_##h##_0, tramp_##h##_1, tramp_##h##_2 }
static void (*tramp[NHID][3])(void *) = {
	TE(0), TE(1), TE(2), TE(3), TE(4), TE(5), TE(6), TE(7),
	TE(8), TE(9), TE(a), TE(b), TE(c), TE(d), TE(e), TE(f),
};

static void timer_callback(void *cookie)
{
	struct cookie *c = cookie;

	iv_validate_now();
	vk_trace("Ct%d @%lld", c->id, (long long)iv_now.tv_sec * 1000000000LL + iv_now.tv_nsec);
	run_script(&hs_t[c->id]);
}

static void task_callback(void *cookie)
{
	struct cookie *c = cookie;

	vk_trace("Ck%d", c->id);
	run_script(&hs_k[c->id]);
}

static void event_callback(void *cookie)
{
	struct cookie *c = cookie;

	vk_trace("Ce%d", c->id);
	run_script(&hs_e[c->id]);
}

static void raw_callback(void *cookie)
{
	struct cookie *c = cookie;

	vk_trace("Cr%d", c->id);
	run_script(&hs_r[c->id]);
}

static void *fresh(size_t sz)
{
	void *p = malloc(sz);

	memset(p, 0xaa, sz);
	return p;
}

static void release(void *p, size_t sz)
{
	memset(p, 0xaa, sz);
	free(p);
}

static void new_fd(int i)
{
	ofd[i] = fresh(sizeof(struct iv_fd));
	IV_FD_INIT(ofd[i]);
	ofd[i]->fd = VK_USER_BASE + i;
	ofd[i]->cookie = &cookies[i];
}

static void new_timer(int j)
{
	otm[j] = fresh(sizeof(struct iv_timer));
	IV_TIMER_INIT(otm[j]);
	otm[j]->cookie = &ctm[j];
	otm[j]->handler = timer_callback;
}

static void new_task(int j)
{
	otk[j] = fresh(sizeof(struct iv_task));
	IV_TASK_INIT(otk[j]);
	otk[j]->cookie = &ctk[j];
	otk[j]->handler = task_callback;
}

static void new_event(int j)
{
	oev[j] = fresh(sizeof(struct iv_event));
	IV_EVENT_INIT(oev[j]);
	oev[j]->cookie = &cev[j];
	oev[j]->handler = event_callback;
	ev_reg[j] = 0;
}

static void new_raw(int j)
{
	orw[j] = fresh(sizeof(struct iv_event_raw));
	IV_EVENT_RAW_INIT(orw[j]);
	orw[j]->cookie = &crw[j];
	orw[j]->handler = raw_callback;
	rw_reg[j] = 0;
}

static int cond_of(const char *s)
{
	int c = 0;

	for (; *s; s++) {
		if (*s == 'i')
			c |= VK_IN;
		if (*s == 'o')
			c |= VK_OUT;
		if (*s == 'h')
			c |= VK_HUP;
		if (*s == 'e')
			c |= VK_ERR;
	}
	return c;
}

static int idx(const char *s)
{
	int v = atoi(s);

	if (v < 0 || v >= NOBJ) {
		fprintf(stderr, "ivsim: bad object index in %s\n", s);
		exit(2);
	}
	return v;
}

/* C18: "descriptors handed to the library for registration are switched to non-blocking, close-on-exec mode" --
   the model has no descriptor flags, so this is a harness rule: an extra segment that the model never prints */
static void check_fd_flags(int i, int fd)
{
	int fl = vk_fd_flags(fd);

	if (fl >= 0 && fl != 3)
		vk_trace("X fr%d: descriptor %d is %s%s after registration", i, fd,
			 fl & 1 ? "" : "still blocking ", fl & 2 ? "" : "not close-on-exec");
}

static void do_action(const char *a)
{
	switch (a[0]) {
	case 'f': {
		int i = idx(a + 2);
		struct iv_fd *f = ofd[i];

		switch (a[1]) {
		case 'r':
			if (!iv_fd_registered(f) && vk_get(f->fd) != NULL && !vk_get(f->fd)->closed) {
				vk_trace("a %s", a);
				iv_fd_register(f);
				check_fd_flags(i, f->fd);
			}
			break;
		case 't':
			if (!iv_fd_registered(f)) {
				int rc;

				vk_trace("a %s", a);
				rc = iv_fd_register_try(f);

				vk_trace("A ft%d=%d", i, rc ? -1 : 0);
				if (rc == 0)
					check_fd_flags(i, f->fd);
			}
			break;
		case 'u':
			if (iv_fd_registered(f)) {
				vk_trace("a %s", a);
				iv_fd_unregister(f);
			}
			break;
		case 'h': {
			const char *p = a + 2;
			int band, hid;
			void (*h)(void *);

			while (*p >= '0' && *p <= '9')
				p++;
			band = *p == 'i' ? 0 : *p == 'o' ? 1 : 2;
			p++;
			vk_trace("a %s", a);
			if (*p == '-') {
				h = NULL;
			} else {
				hid = *p <= '9' ? *p - '0' : *p - 'a' + 10;
				h = tramp[hid & 15][band];
			}
			if (iv_fd_registered(f)) {
				if (band == 0)
					iv_fd_set_handler_in(f, h);
				else if (band == 1)
					iv_fd_set_handler_out(f, h);
				else
					iv_fd_set_handler_err(f, h);
			} else {
				if (band == 0)
					f->handler_in = h;
				else if (band == 1)
					f->handler_out = h;
				else
					f->handler_err = h;
			}
			break;
		}
		case 'c': {
			const char *eq = strchr(a, '=');

			vk_trace("a %s", a);
			f->cookie = &cookies[idx(eq + 1)];
			break;
		}
		case 'x':
			if (!iv_fd_registered(f)) {
				vk_trace("a %s", a);
				release(f, sizeof(*f));
				new_fd(i);
			}
			break;
		}
		break;
	}
	case 'k':
		switch (a[1]) {
		case 's': {
			int i = idx(a + 2);
			const char *eq = strchr(a, '=');
			struct vk_fd *v = vk_get(VK_USER_BASE + i);

			vk_trace("a %s", a);
			if (v != NULL)
				v->cond = cond_of(eq ? eq + 1 : "");
			break;
		}
		case 'c': {
			struct vk_fd *v = vk_get(VK_USER_BASE + idx(a + 2));

			if (iv_fd_registered(ofd[idx(a + 2)]))
				break;
			vk_trace("a %s", a);
			if (v != NULL)
				v->closed = 1;
			break;
		}
		case 'o':
			vk_trace("a %s", a);
			vk_user_fd(idx(a + 2));
			break;
		case 'r': {
			int j = idx(a + 2);

			if (!iv_task_registered(otk[j])) {
				vk_trace("a %s", a);
				iv_task_register(otk[j]);
			}
			break;
		}
		case 'u': {
			int j = idx(a + 2);

			if (iv_task_registered(otk[j])) {
				vk_trace("a %s", a);
				iv_task_unregister(otk[j]);
			}
			break;
		}
		case 'x': {
			int j = idx(a + 2);

			if (!iv_task_registered(otk[j])) {
				vk_trace("a %s", a);
				release(otk[j], sizeof(struct iv_task));
				new_task(j);
			}
			break;
		}
		}
		break;
	case 't': {
		int j = idx(a + 2);

		switch (a[1]) {
		case 'r':
			if (!iv_timer_registered(otm[j])) {
				const char *p = a + 2;
				long long v;

				while (*p >= '0' && *p <= '9')
					p++;
				v = atoll(p + 1);
				if (*p == '+') {
					iv_validate_now();
					v += (long long)iv_now.tv_sec * 1000000000LL + iv_now.tv_nsec;
				}
				otm[j]->expires.tv_sec = v / 1000000000LL;
				otm[j]->expires.tv_nsec = v % 1000000000LL;
				vk_trace("a tr%d@%lld", j, v);
				iv_timer_register(otm[j]);
			}
			break;
		case 'u':
			if (iv_timer_registered(otm[j])) {
				vk_trace("a %s", a);
				iv_timer_unregister(otm[j]);
			}
			break;
		case 'x':
			if (!iv_timer_registered(otm[j])) {
				vk_trace("a %s", a);
				release(otm[j], sizeof(struct iv_timer));
				new_timer(j);
			}
			break;
		}
		break;
	}
	case 'e': {
		int j = idx(a + 2);

		switch (a[1]) {
		case 'r':
			if (!ev_reg[j]) {
				int rc;

				vk_trace("a %s", a);
				rc = iv_event_register(oev[j]);

				vk_trace("A er%d=%d", j, rc ? -1 : 0);
				if (rc == 0)
					ev_reg[j] = 1;
			}
			break;
		case 'u':
			if (ev_reg[j]) {
				vk_trace("a %s", a);
				iv_event_unregister(oev[j]);
				ev_reg[j] = 0;
			}
			break;
		case 'p':
			if (ev_reg[j]) {
				vk_trace("a %s", a);
				iv_event_post(oev[j]);
			}
			break;
		case 'x':
			if (!ev_reg[j]) {
				vk_trace("a %s", a);
				release(oev[j], sizeof(struct iv_event));
				new_event(j);
			}
			break;
		}
		break;
	}
	case 'r': {
		int j = idx(a + 2);

		switch (a[1]) {
		case 'r':
			if (!rw_reg[j]) {
				int rc;

				vk_trace("a %s", a);
				rc = iv_event_raw_register(orw[j]);

				vk_trace("A rr%d=%d", j, rc ? -1 : 0);
				if (rc == 0) {
					int fr = vk_fd_flags(orw[j]->event_rfd.fd);
					int fw = vk_fd_flags(orw[j]->event_wfd);

					rw_reg[j] = 1;
					/* "posting never blocks the poster" (C09) and descriptor hygiene (C18): both ends of a
					   raw event must be non-blocking and close-on-exec, whatever the transport; a
					   blocking write end only shows after 65536 undrained posts, so it is checked here.
					   The extra segment is not part of the model's trace language: it makes the run
					   diverge and the trace monitor reject the trace. */
					if (fr != 3 || fw != 3)
						vk_trace("X rr%d: descriptor flags after iv_event_raw_register: read end %d write end %d "
							 "(bit0 O_NONBLOCK, bit1 FD_CLOEXEC; both must be 3)", j, fr, fw);
				}
			}
			break;
		case 'u':
			if (rw_reg[j]) {
				vk_trace("a %s", a);
				iv_event_raw_unregister(orw[j]);
				rw_reg[j] = 0;
			}
			break;
		case 'p':
			if (rw_reg[j]) {
				vk_trace("a %s", a);
				iv_event_raw_post(orw[j]);
			}
			break;
		case 'x':
			if (!rw_reg[j]) {
				vk_trace("a %s", a);
				release(orw[j], sizeof(struct iv_event_raw));
				new_raw(j);
			}
			break;
		}
		break;
	}
	case 'q':
		vk_trace("a q");
		iv_quit();
		break;
	case 'c':
		vk_trace("a %s", a);
		if (a[1] == 'a')
			vk_clock += atoll(a + 2);
		else if (a[1] == 'i')
			iv_invalidate_now();
		else if (a[1] == 'v')
			(void)__iv_now_location_valid();	/* iv_validate_now() is an empty macro; iv_now validates */
		break;
	}
}

static void run_script(struct script *s)
{
	int k, i;

	if (s->nlists == 0)
		return;
	k = s->invocations < s->nlists ? s->invocations : s->nlists - 1;
	s->invocations++;
	for (i = 0; i < s->nact[k]; i++)
		do_action(s->act[k][i]);
}

void vk_before_wait(int nwait)
{
	int i;

	if (nwait >= MAXW)
		return;
	for (i = 0; i < wacts[nwait].nact[0]; i++)
		do_action(wacts[nwait].act[0][i]);
}

int vk_rotation(int nwait)
{
	return nwait < MAXW ? rots[nwait] : 0;
}

int vk_is_main_pollfds(const void *pfds)
{
	if (st == NULL)
		return 0;
	if (strcmp(backend, "pp") && strcmp(backend, "po"))
		return 0;
	return pfds == (const void *)st->u.poll.pfds;
}

static void parse_script(struct script *s, char *text)
{
	char *l, *lsave;

	s->nlists = 0;
	for (l = strtok_r(text, "/", &lsave); l != NULL && s->nlists < MAXSCR; l = strtok_r(NULL, "/", &lsave)) {
		char *a, *asave;
		int k = s->nlists++;

		s->nact[k] = 0;
		s->act[k] = NULL;
		for (a = strtok_r(l, " ", &asave); a != NULL; a = strtok_r(NULL, " ", &asave)) {
			if ((s->nact[k] & (s->nact[k] + 31)) == 0 || s->nact[k] % 32 == 0)
				s->act[k] = realloc(s->act[k], (s->nact[k] + 32) * sizeof(char *));
			s->act[k][s->nact[k]++] = a;
		}
	}
	/* "H..:" followed by "/" separated lists may contain empty lists: handled by strtok skipping them is
	 * NOT wanted; the generator writes "-" for an empty list */
	{
		int k;

		for (k = 0; k < s->nlists; k++)
			if (s->nact[k] == 1 && !strcmp(s->act[k][0], "-"))
				s->nact[k] = 0;
	}
}

static void fatal_handler(const char *msg)
{
	fprintf(stderr, "ivsim: iv_fatal: %s\n", msg);
	vk_end("FATAL");
}

/*
 * Harness rules at the return of iv_main (traced as "X ..." segments, which no model trace contains): what is still
 * registered must still be reachable by the loop, so that it is served when iv_main is entered again --
 *  - a registered timer sits in the heap (1 <= index <= num_timers); index 0 means "on the expired batch of a running
 *    iv_run_timers", which does not exist any more;
 *  - a registered task is on the loop's pending list (walked from st->tasks), and no batch is being run;
 *  - a registered descriptor is on no active list (that list lived on the stack of iv_fd_poll_and_run).
 */
static void check_end_state(void)
{
	int i;

	if (st->tasks_current != NULL)
		vk_trace("X end: tasks_current still set after iv_main returned");
	for (i = 0; i < NOBJ; i++) {
		struct iv_timer_ *t = (struct iv_timer_ *)otm[i];
		struct iv_task_ *k = (struct iv_task_ *)otk[i];
		struct iv_fd_ *f = (struct iv_fd_ *)ofd[i];

		if (iv_timer_registered(otm[i]) && (t->index < 1 || t->index > st->num_timers))
			vk_trace("X end: timer %d is registered but not in the heap (index %d, %d timers): it will never fire",
				 i, t->index, st->num_timers);
		if (iv_task_registered(otk[i])) {
			struct iv_list_head *p;
			int n = 0, found = 0;

			for (p = st->tasks.next; p != &st->tasks && p != NULL && n < 100000; p = p->next, n++) {
				if (p == &k->list)
					found = 1;
			}
			if (!found)
				vk_trace("X end: task %d is registered but not on the loop's task list: it will never run", i);
		}
		if (iv_fd_registered(ofd[i]) && !iv_list_empty(&f->list_active))
			vk_trace("X end: descriptor object %d is still on an active list after iv_main returned", i);
	}
}

static void run_case(char *line)
{
	char *sec, *save;
	int i;

	for (sec = strtok_r(line, ";", &save); sec != NULL; sec = strtok_r(NULL, ";", &save)) {
		while (*sec == ' ')
			sec++;
		switch (sec[0]) {
		case 'B':
			strncpy(backend, sec + 1, 2);
			backend[2] = 0;
			break;
		case 'M':
			vk_wait_limit = atoi(sec + 1);
			break;
		case 'X': {
			char *f, *fsave;

			for (f = strtok_r(sec + 1, ", ", &fsave); f != NULL; f = strtok_r(NULL, ", ", &fsave)) {
				if (!strcmp(f, "nopwait2"))
					vk_faults.no_pwait2 = 1;
				else if (!strcmp(f, "permpwait2"))
					vk_faults.perm_pwait2 = 1;
				else if (!strcmp(f, "notimerfd"))
					vk_faults.no_timerfd = 1;
				else if (!strcmp(f, "noppoll"))
					vk_faults.no_ppoll = 1;
				else if (!strcmp(f, "noeventfd2"))
					vk_faults.no_eventfd2 = 1;
				else if (!strcmp(f, "noeventfd"))
					vk_faults.no_eventfd = 1;
				else if (!strcmp(f, "nocreate1"))
					vk_faults.no_create1 = 1;
				else if (!strcmp(f, "emfile"))
					vk_faults.emfile_eventfd = 1;
				else if (!strncmp(f, "eintr@", 6) && vk_faults.n_eintr < 8)
					vk_faults.eintr_wait[vk_faults.n_eintr++] = atoi(f + 6);
				else if (!strncmp(f, "ctleintr@", 9))
					vk_faults.eintr_ctl = atoi(f + 9);
				else if (!strncmp(f, "efdok=", 6)) {
					vk_faults.efd_ok = atoi(f + 6);
					if (vk_faults.efd_ok < 0)
						vk_faults.efd_ok = 0;
				}
			}
			break;
		}
		case 'S':
			parse_script(&setup, sec + 1);
			break;
		case 'H': {
			char *colon = strchr(sec, ':');
			struct script *s = NULL;
			int id;

			if (colon == NULL)
				break;
			*colon = 0;
			if (sec[1] == 'f')
				id = sec[2] <= '9' ? sec[2] - '0' : sec[2] - 'a' + 10;
			else
				id = atoi(sec + 2);
			if (id < 0 || id >= NOBJ)
				break;
			switch (sec[1]) {
			case 'f': s = &hs_fd[id]; break;
			case 't': s = &hs_t[id]; break;
			case 'k': s = &hs_k[id]; break;
			case 'e': s = &hs_e[id]; break;
			case 'r': s = &hs_r[id]; break;
			}
			if (s != NULL)
				parse_script(s, colon + 1);
			break;
		}
		case 'W': {
			char *colon = strchr(sec, ':');
			int k = atoi(sec + 1);

			if (colon != NULL && k > 0 && k < MAXW)
				parse_script(&wacts[k], colon + 1);
			break;
		}
		case 'O': {
			char *colon = strchr(sec, ':');
			int k = atoi(sec + 1);

			if (colon != NULL && k > 0 && k < MAXW)
				rots[k] = atoi(colon + 1);
			break;
		}
		}
	}

	{
		/* select the poll method through the documented environment variable */
		const char *excl = "";

		if (!strcmp(backend, "ep"))
			excl = "epoll-timerfd";
		else if (!strcmp(backend, "pp"))
			excl = "epoll-timerfd epoll";
		else if (!strcmp(backend, "po"))
			excl = "epoll-timerfd epoll ppoll";
		setenv("IV_EXCLUDE_POLL_METHOD", excl, 1);
	}

	iv_set_fatal_msg_handler(fatal_handler);
	for (i = 0; i < NOBJ; i++) {
		cookies[i].kind = 'c';
		cookies[i].id = i;
		ctm[i].kind = 't';
		ctm[i].id = i;
		ctk[i].kind = 'k';
		ctk[i].id = i;
		cev[i].kind = 'e';
		cev[i].id = i;
		crw[i].kind = 'r';
		crw[i].id = i;
		vk_user_fd(i);
	}

	iv_init();
	st = iv_get_state();
	vk_trace("I %s", iv_poll_method_name());

	for (i = 0; i < NOBJ; i++) {
		new_fd(i);
		new_timer(i);
		new_task(i);
		new_event(i);
		new_raw(i);
	}

	run_script(&setup);

	vk_trace("M");
	iv_main();
	vk_trace("E q=%d n=%d", st->quit, st->numobjs);
	check_end_state();

	/* tear-down: unregister what is left, free everything, deinit */
	for (i = 0; i < NOBJ; i++) {
		static const char *kinds[] = { "fu", "tu", "ku", "eu", "ru" };
		int k;

		for (k = 0; k < 5; k++) {
			char tok[16];

			snprintf(tok, sizeof(tok), "%s%d", kinds[k], i);
			do_action(tok);
		}
	}
	vk_trace("T n=%d", st->numobjs);
	for (i = 0; i < NOBJ; i++) {
		release(ofd[i], sizeof(struct iv_fd));
		release(otm[i], sizeof(struct iv_timer));
		release(otk[i], sizeof(struct iv_task));
		release(oev[i], sizeof(struct iv_event));
		release(orw[i], sizeof(struct iv_event_raw));
	}
	iv_deinit();
	st = NULL;
	{
		int fd, open_ = 0;

		for (fd = VK_DYN_BASE; fd < VK_MAXFD; fd++) {
			struct vk_fd *v = vk_get(fd);

			if (v != NULL && !v->closed)
				open_++;
		}
		vk_trace("D open=%d", open_);
	}
}

int main(void)
{
	char *line = NULL;
	size_t cap = 0;

	setvbuf(stdout, NULL, _IOFBF, 1 << 16);
	while (getline(&line, &cap, stdin) > 0) {
		pid_t pid;
		int status;
		FILE *errf;

		line[strcspn(line, "\n")] = 0;
		fflush(stdout);
		errf = tmpfile();
		pid = fork();
		if (pid == 0) {
			if (errf != NULL)
				dup2(fileno(errf), 2);
			alarm(20);		/* watchdog: a scenario takes milliseconds */
			run_case(line);
			fflush(stdout);
			/* normal exit so that LeakSanitizer runs */
			exit(0);
		}
		waitpid(pid, &status, 0);
		if (!(WIFEXITED(status) && WEXITSTATUS(status) == 0)) {
			char buf[8192];
			char *sum = NULL;
			size_t n = 0;

			if (errf != NULL) {
				rewind(errf);
				n = fread(buf, 1, sizeof(buf) - 1, errf);
			}
			buf[n] = 0;
			fputs(buf, stderr);
			sum = strstr(buf, "ERROR: ");
			if (sum == NULL)
				sum = strstr(buf, "runtime error");
			if (sum == NULL)
				sum = strstr(buf, "ivsim:");
			if (sum != NULL) {
				sum[strcspn(sum, "\n")] = 0;
				for (char *p = sum; *p; p++)
					if (*p == '|')
						*p = '/';
				if (strlen(sum) > 160)
					sum[160] = 0;
			}
			if (WIFSIGNALED(status))
				printf(" | CRASH sig=%d %s", WTERMSIG(status), sum ? sum : "");
			else
				printf(" | CRASH exit=%d %s", WEXITSTATUS(status), sum ? sum : "");
		}
		if (errf != NULL)
			fclose(errf);
		printf("\n");
		fflush(stdout);
	}
	free(line);
	return 0;
}
