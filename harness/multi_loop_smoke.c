/*
 * multi_loop_smoke.c -- several event loops in different threads of one process, on the real kernel, each passing a
 * token round its own ring of pipes.  A stage of C03 / C02 (search for failing inputs, no model trace): the clauses
 * "a handler runs only for a condition the kernel reported for ITS descriptor", "in the thread whose loop owns the
 * descriptor", "with the registered cookie" are checked against the kernel itself in every handler call:
 *   - the handler runs in the thread that registered the descriptor;
 *   - the descriptor is registered at that moment;
 *   - poll(2) on the descriptor reports POLLIN (one reader per pipe: if the kernel reported readability to this loop,
 *     the byte is still there) and the read returns the token;
 *   - the cookie is the descriptor's own.
 * All of this holds on a correct library for every interleaving and every machine load (no timing assumption: the
 * duration only bounds how many rounds are made).  What it needs real parallelism for: state shared between the loops of
 * different threads (seeds C03_9 / C14_6: a static batch buffer in the epoll poll functions), which the baton scheduler
 * of the virtual-kernel harness cannot interleave inside the batch decoding loop.
 *
 * usage: multi_loop_smoke <threads> <pipes per thread> <milliseconds>      exit 0 = nothing seen, 1 = violation (X line)
 */
#define _GNU_SOURCE
#include <errno.h>
#include <fcntl.h>
#include <poll.h>
#include <pthread.h>
#include <stdio.h>
#include <stdlib.h>
#include <string.h>
#include <unistd.h>
#include <iv.h>

#define MAXP	64

struct loop;

struct ring_fd {
	struct iv_fd	fd;
	struct loop	*lp;
	int		idx;
	int		wfd;		/* write end of the NEXT pipe of the ring */
};

struct loop {
	pthread_t	self;
	int		id;
	int		n;
	int		ms;
	struct ring_fd	r[MAXP];
	int		pfd[MAXP][2];
	struct iv_timer	stop;
	unsigned long	calls;
	int		stopping;
};

static void violation(const char *what, struct ring_fd *r)
{
	printf("X multi-loop: %s (loop %d, pipe %d)\n", what, r->lp->id, r->idx);
	fflush(stdout);
	_exit(1);
}

static void got_in(void *cookie)
{
	struct ring_fd *r = cookie;
	struct loop *lp = r->lp;
	struct pollfd p;
	char c;
	int ret;

	if (!pthread_equal(pthread_self(), lp->self))
		violation("handler called in a thread that does not own the descriptor", r);
	if (r != &lp->r[r->idx])
		violation("handler called with a foreign cookie", r);
	if (!iv_fd_registered(&r->fd))
		violation("handler called for a descriptor that is not registered", r);
	p.fd = r->fd.fd;
	p.events = POLLIN;
	p.revents = 0;
	do {
		ret = poll(&p, 1, 0);
	} while (ret < 0 && errno == EINTR);
	if (ret != 1 || !(p.revents & POLLIN))
		violation("input handler called but the kernel does not report the descriptor readable", r);
	do {
		ret = read(r->fd.fd, &c, 1);
	} while (ret < 0 && errno == EINTR);
	if (ret != 1 || c != 't')
		violation("input handler called but the token could not be read", r);
	lp->calls++;
	if (lp->stopping)
		return;
	do {
		ret = write(r->wfd, "t", 1);
	} while (ret < 0 && errno == EINTR);
	if (ret != 1)
		violation("token could not be passed on", r);
}

static void stop_now(void *cookie)
{
	struct loop *lp = cookie;
	int i;

	lp->stopping = 1;
	for (i = 0; i < lp->n; i++)
		iv_fd_unregister(&lp->r[i].fd);
}

static void *loop_main(void *arg)
{
	struct loop *lp = arg;
	int i;

	lp->self = pthread_self();
	iv_init();
	for (i = 0; i < lp->n; i++)
		if (pipe2(lp->pfd[i], O_NONBLOCK | O_CLOEXEC) < 0)
			abort();
	for (i = 0; i < lp->n; i++) {
		struct ring_fd *r = &lp->r[i];

		IV_FD_INIT(&r->fd);
		r->fd.fd = lp->pfd[i][0];
		r->fd.cookie = r;
		r->fd.handler_in = got_in;
		r->lp = lp;
		r->idx = i;
		r->wfd = lp->pfd[(i + 1) % lp->n][1];
		iv_fd_register(&r->fd);
	}
	/* several tokens per ring, so that batches hold more than one entry */
	for (i = 0; i < lp->n; i += 3)
		if (write(lp->pfd[i][1], "t", 1) != 1)
			abort();
	IV_TIMER_INIT(&lp->stop);
	iv_validate_now();
	lp->stop.expires = iv_now;
	lp->stop.expires.tv_sec += lp->ms / 1000;
	lp->stop.expires.tv_nsec += (lp->ms % 1000) * 1000000L;
	if (lp->stop.expires.tv_nsec >= 1000000000L) {
		lp->stop.expires.tv_sec++;
		lp->stop.expires.tv_nsec -= 1000000000L;
	}
	lp->stop.cookie = lp;
	lp->stop.handler = stop_now;
	iv_timer_register(&lp->stop);
	iv_main();
	iv_deinit();
	for (i = 0; i < lp->n; i++) {
		close(lp->pfd[i][0]);
		close(lp->pfd[i][1]);
	}
	return NULL;
}

int main(int argc, char **argv)
{
	int nthr = argc > 1 ? atoi(argv[1]) : 4;
	int np = argc > 2 ? atoi(argv[2]) : 24;
	int ms = argc > 3 ? atoi(argv[3]) : 800;
	struct loop *lps;
	pthread_t th[16];
	unsigned long total = 0;
	int i;

	if (nthr < 1 || nthr > 16 || np < 2 || np > MAXP)
		return 2;
	/* documented precondition: the first iv_init happens before other threads use the library */
	iv_init();
	lps = calloc(nthr, sizeof(*lps));
	for (i = 0; i < nthr; i++) {
		lps[i].id = i;
		lps[i].n = np;
		lps[i].ms = ms;
		if (pthread_create(&th[i], NULL, loop_main, &lps[i]) != 0)
			abort();
	}
	for (i = 0; i < nthr; i++) {
		pthread_join(th[i], NULL);
		total += lps[i].calls;
	}
	iv_deinit();
	printf("MLOOP ok method=%s threads=%d pipes=%d calls=%lu\n", "-", nthr, np, total);
	free(lps);
	return 0;
}
