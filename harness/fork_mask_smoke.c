/*
 * fork_mask_smoke -- C14, fork handlers of iv_signal.c on the real kernel: fork() returns in the parent with the
 * caller's signal mask unchanged, also when several threads fork at the same time.
 * Thread A (ivykis loop thread, SIGUSR2 unblocked) spawns children through iv_wait_interest_register_spawn from a
 * task that re-registers itself; thread B (plain application thread, SIGUSR2 BLOCKED, all else unblocked) calls
 * fork() directly in a loop (the child _exit()s at once, B waits for it with waitpid on its pid).  The library's
 * pthread_atfork handlers run in both.  After every fork each thread compares its mask with the one it had before.
 * No timing assumption: on a correct library the masks are equal for every interleaving; the program only needs
 * the two threads to overlap sometimes in order to expose a wrong one.
 * stdout: "OK spawns=<n> forks=<n>" / "FAIL ..."; exit 0 / 1.
 */
#define _GNU_SOURCE
#include <pthread.h>
#include <signal.h>
#include <stdio.h>
#include <stdlib.h>
#include <string.h>
#include <sys/wait.h>
#include <unistd.h>
#include <iv.h>
#include <iv_signal.h>
#include <iv_wait.h>

#define SPAWNS	3000

static volatile int stop;
static volatile int bad_a, bad_b;
static long spawns, forks;
static struct iv_wait_interest wi;
static struct iv_task next;
static struct iv_signal sigint;
static int wi_live;

static int mask_has(int sig)
{
	sigset_t m;

	pthread_sigmask(SIG_SETMASK, NULL, &m);
	return sigismember(&m, sig);
}

static void child_fn(void *c)
{
	(void)c;
	_exit(0);
}

static void start_next(void *c);

static void died(void *c, int status, const struct rusage *ru)
{
	(void)c; (void)ru;
	if (WIFEXITED(status) || WIFSIGNALED(status)) {
		iv_wait_interest_unregister(&wi);
		wi_live = 0;
		if (spawns < SPAWNS && !bad_a && !bad_b) {
			iv_task_register(&next);
		} else {
			stop = 1;
			iv_signal_unregister(&sigint);
		}
	}
}

static void start_next(void *c)
{
	(void)c;
	IV_WAIT_INTEREST_INIT(&wi);
	wi.cookie = NULL;
	wi.handler = died;
	if (iv_wait_interest_register_spawn(&wi, child_fn, NULL) < 0) {
		stop = 1;
		iv_signal_unregister(&sigint);
		return;
	}
	wi_live = 1;
	spawns++;
	if (mask_has(SIGUSR2) || mask_has(SIGUSR1))
		bad_a = 1;		/* A never blocks these: it came back from fork with somebody else's mask */
}

static void nop(void *c) { (void)c; }

static void *thread_b(void *arg)
{
	sigset_t m;

	(void)arg;
	sigemptyset(&m);
	sigaddset(&m, SIGUSR2);
	pthread_sigmask(SIG_BLOCK, &m, NULL);
	while (!stop) {
		pid_t pid = fork();

		if (pid == 0)
			_exit(0);
		if (pid > 0) {
			/* the library's SIGCHLD reaper may collect it first: either way it is gone afterwards */
			waitpid(pid, NULL, 0);
			forks++;
		}
		if (!mask_has(SIGUSR2))
			bad_b = 1;	/* B keeps SIGUSR2 blocked: it came back from fork with somebody else's mask */
	}
	return NULL;
}

int main(void)
{
	pthread_t tb;

	alarm(60);
	iv_init();
	/* a registered signal interest keeps the loop alive and makes sure the fork handlers of iv_signal are in place */
	IV_SIGNAL_INIT(&sigint);
	sigint.signum = SIGUSR1;
	sigint.handler = nop;
	iv_signal_register(&sigint);
	IV_TASK_INIT(&next);
	next.handler = start_next;
	iv_task_register(&next);
	pthread_create(&tb, NULL, thread_b, NULL);
	iv_main();
	stop = 1;
	pthread_join(tb, NULL);
	iv_deinit();
	if (bad_a || bad_b) {
		printf("FAIL a thread returned from fork() with another thread's signal mask (loop thread: %d, plain thread: %d) "
		       "after %ld spawns / %ld forks\n", bad_a, bad_b, spawns, forks);
		return 1;
	}
	printf("OK spawns=%ld forks=%ld\n", spawns, forks);
	return 0;
}
