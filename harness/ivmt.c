/*
 * ivmt -- multi-threaded scenario interpreter: the real ivykis library on the
 * virtual kernel (vk.c) with real threads serialised by the baton scheduler
 * (mt.c).  One scenario per line on stdin, one process per scenario, one
 * output line: the totally ordered log "<thread>:<event>" joined by " | ".
 *
 * Scenario sections (separated by ';'):
 *   B<be> X<faults> M<n>      as in ivsim.c (M limits the total number of kernel waits)
 *   Z<chars>                  schedule: thread index (0-9a-f) chosen at successive yield points
 *   L<k>:<actions>            loop thread k (0 = the main thread): iv_init, set-up actions, iv_main,
 *                             tear-down, iv_deinit.  Threads > 0 are started by thread 0 just before
 *                             its iv_main, in index order.
 *   P<k>:<actions>            plain thread k: runs the actions and exits (a poster)
 *   H<k><key>:<l>/<l>/..      handler scripts of loop thread k; key = t<j> k<j> e<j> r<j> (object j of
 *                             that thread), w<j> (work function of item j), c<j> (completion of item j),
 *                             s<j> (thread-start hook of pool j), S<j> (thread-stop hook of pool j),
 *                             g<j> (signal interest j), i<j> (wait interest j)
 * Actions (guarded like in ivsim.c; objects belong to the executing loop thread unless <k>. is given):
 *   tr<j>+<ns> tu<j>  kr<j> ku<j>  er<j> eu<j>  rr<j> ru<j>  q  ca<ns>  y (explicit yield point)
 *   ep<k>.<j>  rp<k>.<j>      post event / raw event j of loop thread k (from any thread);
 *                             logged as "a ep.." at the call and "pe" when the call returned
 *   wc<p>=<max>  wp<p>        iv_work_pool_create (max_threads) / iv_work_pool_put of pool p (owner thread)
 *   ws<p>.<i>  wl<i>          submit work item i to pool p / to the NULL pool (local)
 *   wS<k>.<p>.<i>             (from a work function) submit item i as a continuation to pool p of thread k
 *   tc<n>                     iv_thread_create of a helper thread running script n of this thread's
 *                             "h<n>" handler key and ending as that script says (see ht below)
 * Log events: a/pe actions, C<kind><j> callbacks, L/U <lock> (e<k> = event list mutex of loop thread k,
 * x<n>/s<n> other mutex / spin lock numbered by first use), K <k> kick of loop thread k, Wb wait blocks,
 * W../R.. waits (vk.c), Tc/Tj/Td/Tx thread create/join/detach/exit, M / E / T / D as in ivsim.c.
 */
#define _GNU_SOURCE
#include <errno.h>
#include <poll.h>
#include <pthread.h>
#include <stdarg.h>
#include <stdio.h>
#include <stdlib.h>
#include <string.h>
#include <sys/epoll.h>
#include <sys/wait.h>
#include <unistd.h>
#include <iv.h>
#include <iv_event.h>
#include <iv_event_raw.h>
#include <iv_thread.h>
#include <iv_work.h>
#include "vk.h"
#include "mt.h"

#include "ivmt.h"

static int first_seg = 1;
int ivmt_trace_off;

void vk_trace(const char *fmt, ...)
{
	va_list ap;
	static int nseg;
	static char trace_lock;

	/* free-running (TSan) mode: logging would synchronise the threads with each other and hide races */
	if (ivmt_trace_off && strcmp(fmt, "D") != 0)
		return;

	/* the log is shared by all threads (serialised anyway under the baton; a real lock when free-running) */
	while (__atomic_test_and_set(&trace_lock, __ATOMIC_ACQUIRE))
		;
	if (++nseg > 6000) {
		fputs(" | OVERFLOW", stdout);
		fflush(stdout);
		_exit(3);
	}
	if (!first_seg)
		fputs(" | ", stdout);
	first_seg = 0;
	printf("%d:", mt_self());
	va_start(ap, fmt);
	vprintf(fmt, ap);
	va_end(ap);
	fflush(stdout);
	__atomic_clear(&trace_lock, __ATOMIC_RELEASE);
}

void vk_end(const char *why)
{
	vk_trace("%s", why);
	fflush(stdout);
#ifdef VERIF_COVERAGE
	{ extern void __gcov_dump(void); __gcov_dump(); }
#endif
	_exit(0);
}

void vk_before_wait(int nwait)
{
	(void)nwait;
}

int vk_rotation(int nwait)
{
	(void)nwait;
	return 0;
}

char backend[8] = "et";

struct tctx tc[NTHR];

int vk_is_main_pollfds(const void *pfds)
{
	int t;

	if (strcmp(backend, "pp") && strcmp(backend, "po"))
		return 0;
	for (t = 0; t < NTHR; t++)
		if (tc[t].st != NULL && pfds == (const void *)tc[t].st->u.poll.pfds)
			return 1;
	return 0;
}

int ivmt_classify_lock(void *addr, char *buf, size_t len)
{
	int t;

	for (t = 0; t < NTHR; t++)
		if (tc[t].st != NULL && addr == (void *)&tc[t].st->event_list_mutex) {
			snprintf(buf, len, "e%d", t);
			return 1;
		}
	return 0;
}


static struct tctx *me(void)
{
	return &tc[mt_self() < NTHR ? mt_self() : 0];
}

/* which loop thread is executing (worker threads created by the library run scripts of their pool's owner) */
static __thread struct tctx *script_ctx;

static struct tctx *ctx(void)
{
	return script_ctx != NULL ? script_ctx : me();
}

static void timer_callback(void *cookie)
{
	struct cookie *c = cookie;

	vk_trace("Ct%d @%lld", c->id, (long long)iv_now.tv_sec * 1000000000LL + iv_now.tv_nsec);
	run_script(&tc[c->thr], &tc[c->thr].hs['t'][c->id]);
}

static void task_callback(void *cookie)
{
	struct cookie *c = cookie;

	vk_trace("Ck%d", c->id);
	run_script(&tc[c->thr], &tc[c->thr].hs['k'][c->id]);
}

static void event_callback(void *cookie)
{
	struct cookie *c = cookie;

	vk_trace("Ce%d", c->id);
	run_script(&tc[c->thr], &tc[c->thr].hs['e'][c->id]);
}

static void raw_callback(void *cookie)
{
	struct cookie *c = cookie;

	vk_trace("Cr%d", c->id);
	run_script(&tc[c->thr], &tc[c->thr].hs['r'][c->id]);
}

static void work_fn(void *cookie)
{
	struct cookie *c = cookie;
	struct tctx *saved = script_ctx;

	vk_trace("Cw%d.%d", c->thr, c->id);
	script_ctx = &tc[c->thr];
	run_script(&tc[c->thr], &tc[c->thr].hs['w'][c->id]);
	script_ctx = saved;
	vk_trace("Xw%d.%d", c->thr, c->id);
}

static void work_completion(void *cookie)
{
	struct cookie *c = cookie;

	vk_trace("Cc%d.%d", c->thr, c->id);
	run_script(&tc[c->thr], &tc[c->thr].hs['c'][c->id]);
}

static void pool_start_hook(void *cookie)
{
	struct cookie *c = cookie;

	vk_trace("Cs%d.%d", c->thr, c->id);
}

static void pool_stop_hook(void *cookie)
{
	struct cookie *c = cookie;

	vk_trace("CS%d.%d", c->thr, c->id);
}

static void *fresh(size_t sz)
{
	void *p = malloc(sz);

	memset(p, 0xaa, sz);
	return p;
}

static void release(void *p, size_t sz)
{
	memset(p, 0xaa, sz);
	free(p);
}

static void helper_thread(void *cookie)
{
	struct cookie *c = cookie;
	struct tctx *saved = script_ctx;

	vk_trace("Ch%d.%d", c->thr, c->id);
	script_ctx = &tc[c->thr];
	run_script(&tc[c->thr], &tc[c->thr].hs['h'][c->id]);
	script_ctx = saved;
}

int num(const char *s, const char **end)
{
	int v = 0;

	while (*s >= '0' && *s <= '9')
		v = v * 10 + (*s++ - '0');
	if (end != NULL)
		*end = s;
	return v;
}

int obj(int v)
{
	if (v < 0 || v >= NOBJ) {
		fprintf(stderr, "ivmt: bad object index %d\n", v);
		exit(2);
	}
	return v;
}

__attribute__((weak)) int ivmt_ext_action(struct tctx *c, const char *a)
{
	(void)c;
	(void)a;
	return 0;
}

__attribute__((weak)) void ivmt_ext_loop_init(struct tctx *c, int k)
{
	(void)c;
	(void)k;
}

__attribute__((weak)) void ivmt_ext_loop_finish(struct tctx *c, int k)
{
	(void)c;
	(void)k;
}

void do_action(struct tctx *c, const char *a)
{
	const char *p;
	int j = (a[0] && a[1]) ? num(a + 2, &p) : 0;

	if (ivmt_ext_action(c, a))
		return;

	switch (a[0]) {
	case 'y':
		vk_trace("a y");
		mt_yield();
		break;
	case 's':
		if (a[1] == 'l') {
			/* sl<ms>: let real time pass (free-running programs); a plain yield point under the baton */
			vk_trace("a %s", a);
			if (mt_active)
				mt_yield();
			else
				usleep(1000 * atoi(a + 2));
			break;
		}
		break;
	case 'j':
		/* jn: wait until every other harness-created thread has finished (used by free-running programs
		 * before they unregister objects that other threads post to) */
		vk_trace("a jn");
		mt_join_all();
		break;
	case 't':
		j = obj(j);
		if (a[1] == 'r' && !iv_timer_registered(c->tm[j])) {
			long long v = atoll(p + 1);

			v += (long long)iv_now.tv_sec * 1000000000LL + iv_now.tv_nsec;
			c->tm[j]->expires.tv_sec = v / 1000000000LL;
			c->tm[j]->expires.tv_nsec = v % 1000000000LL;
			vk_trace("a tr%d@%lld", j, v);
			iv_timer_register(c->tm[j]);
		} else if (a[1] == 'u' && iv_timer_registered(c->tm[j])) {
			vk_trace("a %s", a);
			iv_timer_unregister(c->tm[j]);
		} else if (a[1] == 'c') {
			static struct cookie hc[NTHR][NOBJ];
			char name[32];

			hc[mt_self() % NTHR][j].thr = (int)(c - tc);
			hc[mt_self() % NTHR][j].id = j;
			snprintf(name, sizeof(name), "helper %d", j);
			vk_trace("a %s", a);
			iv_thread_create(name, helper_thread, &hc[mt_self() % NTHR][j]);
		}
		break;
	case 'k':
		j = obj(j);
		if (a[1] == 'r' && !iv_task_registered(c->tk[j])) {
			vk_trace("a %s", a);
			iv_task_register(c->tk[j]);
		} else if (a[1] == 'u' && iv_task_registered(c->tk[j])) {
			vk_trace("a %s", a);
			iv_task_unregister(c->tk[j]);
		}
		break;
	case 'e':
		if (a[1] == 'p') {
			int k = j, e = obj(num(p + 1, NULL));

			if (k >= 0 && k < NTHR && tc[k].ev_reg[e]) {
				vk_trace("a %s", a);
				iv_event_post(tc[k].ev[e]);
				vk_trace("pe");
			}
			break;
		}
		j = obj(j);
		if (a[1] == 'r' && !c->ev_reg[j]) {
			int rc;

			vk_trace("a %s", a);
			rc = iv_event_register(c->ev[j]);
			vk_trace("A er%d=%d", j, rc ? -1 : 0);
			if (rc == 0)
				c->ev_reg[j] = 1;
		} else if (a[1] == 'u' && c->ev_reg[j]) {
			vk_trace("a %s", a);
			c->ev_reg[j] = 0;
			iv_event_unregister(c->ev[j]);
		}
		break;
	case 'r':
		if (a[1] == 'p') {
			int k = j, r = obj(num(p + 1, NULL));

			if (k >= 0 && k < NTHR && tc[k].rw_reg[r]) {
				vk_trace("a %s", a);
				iv_event_raw_post(tc[k].rw[r]);
				vk_trace("pe");
			}
			break;
		}
		j = obj(j);
		if (a[1] == 'r' && !c->rw_reg[j]) {
			int rc;

			vk_trace("a %s", a);
			rc = iv_event_raw_register(c->rw[j]);
			vk_trace("A rr%d=%d", j, rc ? -1 : 0);
			if (rc == 0)
				c->rw_reg[j] = 1;
		} else if (a[1] == 'u' && c->rw_reg[j]) {
			vk_trace("a %s", a);
			c->rw_reg[j] = 0;
			iv_event_raw_unregister(c->rw[j]);
			/* the object may be freed as soon as its unregister call has returned (C01): do so, under ASan, and
			   continue with a fresh poisoned one -- a descriptor entry of the current kernel batch that still
			   points into it must not be touched any more */
			release(c->rw[j], sizeof(struct iv_event_raw));
			c->rw[j] = fresh(sizeof(struct iv_event_raw));
			IV_EVENT_RAW_INIT(c->rw[j]);
			c->rw[j]->cookie = &c->crw[j];
			c->rw[j]->handler = raw_callback;
		}
		break;
	case 'w':
		switch (a[1]) {
		case 'c':
			j = obj(j);
			if (!c->pool_live[j]) {
				c->cpl[j].thr = (int)(c - tc);
				c->cpl[j].id = j;
				IV_WORK_POOL_INIT(&c->pool[j]);
				c->pool[j].cookie = &c->cpl[j];
				c->pool[j].max_threads = atoi(p + 1);
				c->pool[j].thread_start = pool_start_hook;
				c->pool[j].thread_stop = pool_stop_hook;
				vk_trace("a %s", a);
				if (iv_work_pool_create(&c->pool[j]) == 0)
					c->pool_live[j] = 1;
			}
			break;
		case 'p':
			j = obj(j);
			if (c->pool_live[j]) {
				vk_trace("a %s", a);
				c->pool_live[j] = 0;
				iv_work_pool_put(&c->pool[j]);
				/* the caller may reuse the structure immediately */
				memset(&c->pool[j], 0xaa, sizeof(c->pool[j]));
				vk_trace("pe");
			}
			break;
		case 's': {
			int i = obj(num(p + 1, NULL));

			j = obj(j);
			if (c->pool_live[j]) {
				vk_trace("a %s", a);
				iv_work_pool_submit_work(&c->pool[j], &c->item[i]);
				vk_trace("pe");
			}
			break;
		}
		case 'l':
			j = obj(j);
			vk_trace("a %s", a);
			iv_work_pool_submit_work(NULL, &c->item[j]);
			break;
		case 'S': {
			/* wS<k>.<p>.<i>: continuation from a work function */
			const char *q;
			int k = j, pl = obj(num(p + 1, &q)), i = obj(num(q + 1, NULL));

			if (k >= 0 && k < NTHR && tc[k].pool_live[pl]) {
				vk_trace("a %s", a);
				iv_work_pool_submit_continuation(&tc[k].pool[pl], &tc[k].item[i]);
				vk_trace("pe");
			}
			break;
		}
		}
		break;
	case 'h':
		/* endings of a helper thread (scripts H<k>h<n>, run by tc<n>); only outside the loop threads:
		   hi = iv_init() in the helper, hd = iv_deinit(), hx = pthread_exit() (logged Te by mt.c) */
		if (mt_self() < NTHR && tc[mt_self()].kind != 0)
			break;
		if (a[1] == 'i' && !iv_inited()) {
			vk_trace("a hi");
			iv_init();
		} else if (a[1] == 'd' && iv_inited()) {
			vk_trace("a hd");
			iv_deinit();
		} else if (a[1] == 'x') {
			vk_trace("a hx");
			pthread_exit(NULL);
		}
		break;
	case 'q':
		vk_trace("a q");
		iv_quit();
		break;
	case 'c':
		if (a[1] == 'a') {
			vk_trace("a %s", a);
			vk_clock += atoll(a + 2);
		}
		break;
	}
}

void run_script(struct tctx *c, struct script *s)
{
	int k, i;

	if (s->nlists == 0)
		return;
	k = s->invocations < s->nlists ? s->invocations : s->nlists - 1;
	s->invocations++;
	for (i = 0; i < s->nact[k]; i++)
		do_action(c, s->act[k][i]);
}

static void parse_script(struct script *s, char *text)
{
	char *l, *lsave;
	int k;

	s->nlists = 0;
	for (l = strtok_r(text, "/", &lsave); l != NULL && s->nlists < MAXSCR; l = strtok_r(NULL, "/", &lsave)) {
		char *a, *asave;

		k = s->nlists++;
		s->nact[k] = 0;
		for (a = strtok_r(l, " ", &asave); a != NULL && s->nact[k] < MAXACT; a = strtok_r(NULL, " ", &asave))
			s->act[k][s->nact[k]++] = a;
	}
	for (k = 0; k < s->nlists; k++)
		if (s->nact[k] == 1 && !strcmp(s->act[k][0], "-"))
			s->nact[k] = 0;
}

static void fatal_handler(const char *msg)
{
	fprintf(stderr, "ivmt: iv_fatal: %s\n", msg);
	vk_end("FATAL");
}

static void loop_body(int k)
{
	struct tctx *c = &tc[k];
	int i;

	iv_init();
	c->st = iv_get_state();
	mt_set_loop_state(c->st);
	if (k == 0)
		vk_trace("I %s", iv_poll_method_name());
	if (!strcmp(backend, "et") || !strcmp(backend, "ep"))
		vk_trace("Li ep=%d", c->st->u.epoll.epoll_fd);
	for (i = 0; i < NOBJ; i++) {
		c->ctm[i] = c->ctk[i] = c->cev[i] = c->crw[i] = c->cwk[i] = (struct cookie){ k, 'x', i };
		c->tm[i] = fresh(sizeof(struct iv_timer));
		IV_TIMER_INIT(c->tm[i]);
		c->tm[i]->cookie = &c->ctm[i];
		c->tm[i]->handler = timer_callback;
		c->tk[i] = fresh(sizeof(struct iv_task));
		IV_TASK_INIT(c->tk[i]);
		c->tk[i]->cookie = &c->ctk[i];
		c->tk[i]->handler = task_callback;
		c->ev[i] = fresh(sizeof(struct iv_event));
		IV_EVENT_INIT(c->ev[i]);
		c->ev[i]->cookie = &c->cev[i];
		c->ev[i]->handler = event_callback;
		c->rw[i] = fresh(sizeof(struct iv_event_raw));
		IV_EVENT_RAW_INIT(c->rw[i]);
		c->rw[i]->cookie = &c->crw[i];
		c->rw[i]->handler = raw_callback;
		IV_WORK_ITEM_INIT(&c->item[i]);
		c->item[i].cookie = &c->cwk[i];
		c->item[i].work = work_fn;
		c->item[i].completion = work_completion;
	}
	ivmt_ext_loop_init(c, k);
	run_script(c, &c->body);
}

static void loop_finish(int k)
{
	struct tctx *c = &tc[k];
	int i;

	vk_trace("E q=%d n=%d", c->st->quit, c->st->numobjs);
	ivmt_ext_loop_finish(c, k);
	for (i = 0; i < NOBJ; i++) {
		char tok[16];
		static const char *kinds[] = { "tu", "ku", "eu", "ru", "wp" };
		int x;

		for (x = 0; x < 5; x++) {
			snprintf(tok, sizeof(tok), "%s%d", kinds[x], i);
			do_action(c, tok);
		}
	}
	vk_trace("T n=%d", c->st->numobjs);
	for (i = 0; i < NOBJ; i++) {
		release(c->tm[i], sizeof(struct iv_timer));
		release(c->tk[i], sizeof(struct iv_task));
		release(c->ev[i], sizeof(struct iv_event));
		release(c->rw[i], sizeof(struct iv_event_raw));
	}
	c->st = NULL;
	mt_set_loop_state(NULL);
	iv_deinit();
}

static void *thread_main(void *arg)
{
	int k = (int)(long)arg;
	struct tctx *c = &tc[k];

	if (c->kind == 1) {
		loop_body(k);
		vk_trace("M");
		iv_main();
		loop_finish(k);
	} else {
		run_script(c, &c->body);
	}
	return NULL;
}

static void run_case(char *line)
{
	char *sec, *save;
	int k;
	static char sched[512];

	for (sec = strtok_r(line, ";", &save); sec != NULL; sec = strtok_r(NULL, ";", &save)) {
		while (*sec == ' ')
			sec++;
		switch (sec[0]) {
		case 'B':
			strncpy(backend, sec + 1, 2);
			backend[2] = 0;
			break;
		case 'M':
			vk_wait_limit = atoi(sec + 1);
			break;
		case 'Z':
			strncpy(sched, sec + 1, sizeof(sched) - 1);
			mt_schedule = sched;
			break;
		case 'X': {
			char *f, *fsave;

			for (f = strtok_r(sec + 1, ", ", &fsave); f != NULL; f = strtok_r(NULL, ", ", &fsave)) {
				if (!strcmp(f, "nopwait2"))
					vk_faults.no_pwait2 = 1;
				else if (!strcmp(f, "notimerfd"))
					vk_faults.no_timerfd = 1;
				else if (!strcmp(f, "noeventfd2"))
					vk_faults.no_eventfd2 = 1;
				else if (!strcmp(f, "noeventfd"))
					vk_faults.no_eventfd = 1;
				else if (!strncmp(f, "forkfail=", 9))	/* the k-th fork() fails with EAGAIN */
					mt_fork_fail_at = atoi(f + 9);
				else if (!strcmp(f, "kickyield"))	/* yield also after a cross-thread kick took effect */
					vk_yield_after_kick = 1;
				else if (!strncmp(f, "efdok=", 6))	/* the failures start after k eventfds were created */
					vk_faults.efd_ok = atoi(f + 6) > 0 ? atoi(f + 6) : 0;
			}
			break;
		}
		case 'L':
		case 'P': {
			char *colon = strchr(sec, ':');

			k = atoi(sec + 1);
			if (colon == NULL || k < 0 || k >= NTHR)
				break;
			tc[k].kind = sec[0] == 'L' ? 1 : 2;
			parse_script(&tc[k].body, colon + 1);
			break;
		}
		case 'H': {
			char *colon = strchr(sec, ':');
			int key, id;

			if (colon == NULL)
				break;
			k = sec[1] - '0';
			key = sec[2];
			id = atoi(sec + 3);
			if (k < 0 || k >= NTHR || key < 0 || key >= 128 || id < 0 || id >= NOBJ)
				break;
			parse_script(&tc[k].hs[key][id], colon + 1);
			break;
		}
		}
	}

	{
		const char *excl = "";

		if (!strcmp(backend, "ep"))
			excl = "epoll-timerfd";
		else if (!strcmp(backend, "pp"))
			excl = "epoll-timerfd epoll";
		else if (!strcmp(backend, "po"))
			excl = "epoll-timerfd epoll ppoll";
		setenv("IV_EXCLUDE_POLL_METHOD", excl, 1);
	}
	iv_set_fatal_msg_handler(fatal_handler);

	mt_init();
	vk_block_hook = mt_block_in_wait_cb;
	vk_yield_hook = mt_yield;
	if (tc[0].kind != 1)
		tc[0].kind = 1;

	loop_body(0);
	for (k = 1; k < NTHR; k++)
		if (tc[k].kind != 0) {
			int idx = mt_spawn(thread_main, (void *)(long)k);

			vk_trace("Tc %d", idx);
		}
	vk_trace("M");
	iv_main();
	/* other threads may still be posting to this loop's objects */
	mt_join_all();
	loop_finish(0);
	vk_trace("D");
}

pid_t __real_fork(void);

int main(void)
{
	char *line = NULL;
	size_t cap = 0;

	setvbuf(stdout, NULL, _IOFBF, 1 << 16);
	while (getline(&line, &cap, stdin) > 0) {
		pid_t pid;
		int status;
		FILE *errf;

		line[strcspn(line, "\n")] = 0;
		fflush(stdout);
		errf = tmpfile();
		pid = __real_fork();
		if (pid == 0) {
			if (errf != NULL)
				dup2(fileno(errf), 2);
			alarm(8);
			run_case(line);
			fflush(stdout);
#ifdef VERIF_COVERAGE
			{ extern void __gcov_dump(void); __gcov_dump(); }
#endif
			_exit(0);
		}
		waitpid(pid, &status, 0);
		if (!(WIFEXITED(status) && WEXITSTATUS(status) == 0)) {
			char buf[8192];
			char *sum = NULL;
			size_t n = 0;

			if (errf != NULL) {
				rewind(errf);
				n = fread(buf, 1, sizeof(buf) - 1, errf);
			}
			buf[n] = 0;
			fputs(buf, stderr);
			sum = strstr(buf, "ERROR: ");
			if (sum == NULL)
				sum = strstr(buf, "runtime error");
			if (sum == NULL)
				sum = strstr(buf, "ivmt:");
			if (sum != NULL) {
				sum[strcspn(sum, "\n")] = 0;
				for (char *p = sum; *p; p++)
					if (*p == '|')
						*p = '/';
				if (strlen(sum) > 160)
					sum[160] = 0;
			}
			if (WIFSIGNALED(status))
				printf(" | CRASH sig=%d %s", WTERMSIG(status), sum ? sum : "");
			else
				printf(" | CRASH exit=%d %s", WEXITSTATUS(status), sum ? sum : "");
		}
		if (errf != NULL)
			fclose(errf);
		printf("\n");
		fflush(stdout);
	}
	free(line);
	return 0;
}
