/*
 * popen_smoke -- the only place where the real fork/exec of iv_popen runs (C19): real kernel, no
 * interposition.  Checks the clauses no model can carry: the returned descriptor is connected to the
 * child's stdout (type "r") / stdin (type "w"), the child's other standard streams are /dev/null, after
 * iv_popen_request_close a child that ignores nothing is terminated and reaped (no zombie remains) and
 * iv_main returns.  No sleeps and no timing assumptions: every step waits for an event (EOF of a pipe the child
 * holds); only the 40 s guard timer is a clock.  Prints "OK" or "FAIL <what>"; exit status 0 / 1.
 */
#define _GNU_SOURCE
#include <errno.h>
#include <fcntl.h>
#include <stdio.h>
#include <stdlib.h>
#include <string.h>
#include <sys/stat.h>
#include <sys/wait.h>
#include <unistd.h>
#include <iv.h>
#include <iv_popen.h>

static struct iv_popen_request req;
static struct iv_fd rfd;
static struct iv_timer guard;
static char out[4096];
static int outlen;
static int phase;

static void fail(const char *what)
{
	printf("FAIL %s\n", what);
	exit(1);
}

static void guard_fired(void *c)
{
	(void)c;
	fail("timeout (loop did not finish)");
}

static void got_data(void *c)
{
	int n = read(rfd.fd, out + outlen, sizeof(out) - 1 - outlen);

	(void)c;
	if (n > 0) {
		outlen += n;
		return;
	}
	if (n < 0 && errno == EAGAIN)
		return;
	/* EOF: the child closed its stdout */
	iv_fd_unregister(&rfd);
	close(rfd.fd);
	iv_popen_request_close(&req);
	iv_timer_unregister(&guard);
}

static void run_r(void)
{
	static char *argv[] = { "/bin/sh", "-c",
		"echo hello-from-child; echo \"fd0:$(readlink /proc/$$/fd/0)\"; echo \"fd2:$(readlink /proc/$$/fd/2)\"; "
		/* the null device on fd 0 must be READABLE (end of file at once), on fd 2 writable */
		"cat; echo \"stdin-read-rc:$?\"; echo x >&2; echo \"stderr-write-rc:$?\"", NULL };
	int fd;

	IV_POPEN_REQUEST_INIT(&req);
	req.file = "/bin/sh";
	req.argv = argv;
	req.type = "r";
	fd = iv_popen_request_submit(&req);
	if (fd < 0)
		fail("submit r");
	IV_FD_INIT(&rfd);
	rfd.fd = fd;
	rfd.handler_in = got_data;
	iv_fd_register(&rfd);
}

/* type "w": the child reports through a second pipe it inherits (descriptor number in the command line): what it
   read from its stdin, then where its fd 1 and fd 2 point.  The request is closed when that pipe reports EOF, i.e.
   when the child (and everything it started) is gone -- no sleeping, no timing assumption. */
static struct iv_fd wfd;
static char wout[4096];
static int woutlen;

static void got_report(void *c)
{
	int n = read(wfd.fd, wout + woutlen, sizeof(wout) - 1 - woutlen);

	(void)c;
	if (n > 0) {
		woutlen += n;
		return;
	}
	if (n < 0 && (errno == EAGAIN || errno == EINTR))
		return;
	iv_fd_unregister(&wfd);
	close(wfd.fd);
	/* the child has ended; closing the request now must not signal anything harmful */
	iv_popen_request_close(&req);
	iv_timer_unregister(&guard);
}

static void run_w(void)
{
	static char cmd[512];
	static char *argv[] = { "/bin/sh", "-c", cmd, NULL };
	int rep[2];
	int fd;

	if (pipe(rep) < 0)
		fail("pipe");
	snprintf(cmd, sizeof(cmd),
		 "D=$(cat); echo \"got:$D\" >&%d; echo \"fd1:$(readlink /proc/$$/fd/1)\" >&%d; "
		 "echo \"fd2:$(readlink /proc/$$/fd/2)\" >&%d", rep[1], rep[1], rep[1]);
	IV_POPEN_REQUEST_INIT(&req);
	req.file = "/bin/sh";
	req.argv = argv;
	req.type = "w";
	fd = iv_popen_request_submit(&req);
	if (fd < 0)
		fail("submit w");
	close(rep[1]);
	if (write(fd, "to-child\n", 9) != 9)
		fail("write to child");
	close(fd);		/* the child's cat sees EOF */
	IV_FD_INIT(&wfd);
	wfd.fd = rep[0];
	wfd.handler_in = got_report;
	iv_fd_register(&wfd);
}

static void arm_guard(void)
{
	IV_TIMER_INIT(&guard);
	iv_validate_now();
	guard.expires = iv_now;
	guard.expires.tv_sec += 40;
	guard.handler = guard_fired;
	iv_timer_register(&guard);
}

int main(void)
{
	iv_init();

	phase = 1;
	arm_guard();
	run_r();
	iv_main();
	out[outlen] = 0;
	if (strstr(out, "hello-from-child") == NULL)
		fail("type r: child's stdout is not connected to the descriptor");
	if (strstr(out, "fd0:/dev/null\n") == NULL)
		fail("type r: stdin of the child is not /dev/null");
	if (strstr(out, "stdin-read-rc:0\n") == NULL)
		fail("type r: the child could not read end-of-file from its standard input (null device not readable)");
	if (strstr(out, "stderr-write-rc:0\n") == NULL)
		fail("type r: the child could not write to its standard error");
	if (strstr(out, "fd2:/dev/null\n") == NULL)
		fail("type r: stderr of the child is not /dev/null");
	if (waitpid(-1, NULL, WNOHANG) != -1 || errno != ECHILD)
		fail("type r: a child is left unreaped (zombie)");

	phase = 2;
	arm_guard();
	run_w();
	iv_main();
	if (waitpid(-1, NULL, WNOHANG) != -1 || errno != ECHILD)
		fail("type w: a child is left unreaped (zombie)");
	wout[woutlen] = 0;
	if (strstr(wout, "got:to-child") == NULL)
		fail("type w: data written to the descriptor did not reach the child's stdin");
	if (strstr(wout, "fd1:/dev/null\n") == NULL)
		fail("type w: stdout of the child is not /dev/null");
	if (strstr(wout, "fd2:/dev/null\n") == NULL)
		fail("type w: stderr of the child is not /dev/null");

	iv_deinit();
	printf("OK\n");
	return 0;
}
