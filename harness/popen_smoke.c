/*
 * popen_smoke -- the only place where the real fork/exec of iv_popen runs (C19): real kernel, no
 * interposition.  Checks the clauses no model can carry: the returned descriptor is connected to the
 * child's stdout (type "r") / stdin (type "w"), the child's other standard streams are /dev/null, after
 * iv_popen_request_close a child that ignores nothing is terminated and reaped (no zombie remains) and
 * iv_main returns.  Prints "OK" or "FAIL <what>"; exit status 0 / 1.
 */
#define _GNU_SOURCE
#include <errno.h>
#include <fcntl.h>
#include <stdio.h>
#include <stdlib.h>
#include <string.h>
#include <sys/stat.h>
#include <sys/wait.h>
#include <unistd.h>
#include <iv.h>
#include <iv_popen.h>

static struct iv_popen_request req;
static struct iv_fd rfd;
static struct iv_timer guard;
static char out[4096];
static int outlen;
static int phase;
static char tmpl[] = "/tmp/ivpopen_smoke_XXXXXX";

static void fail(const char *what)
{
	printf("FAIL %s\n", what);
	exit(1);
}

static void guard_fired(void *c)
{
	(void)c;
	fail("timeout (loop did not finish)");
}

static void got_data(void *c)
{
	int n = read(rfd.fd, out + outlen, sizeof(out) - 1 - outlen);

	(void)c;
	if (n > 0) {
		outlen += n;
		return;
	}
	if (n < 0 && errno == EAGAIN)
		return;
	/* EOF: the child closed its stdout */
	iv_fd_unregister(&rfd);
	close(rfd.fd);
	iv_popen_request_close(&req);
	iv_timer_unregister(&guard);
}

static void run_r(void)
{
	static char *argv[] = { "/bin/sh", "-c",
		"echo hello-from-child; readlink /proc/self/fd/0; readlink /proc/self/fd/2", NULL };
	int fd;

	IV_POPEN_REQUEST_INIT(&req);
	req.file = "/bin/sh";
	req.argv = argv;
	req.type = "r";
	fd = iv_popen_request_submit(&req);
	if (fd < 0)
		fail("submit r");
	IV_FD_INIT(&rfd);
	rfd.fd = fd;
	rfd.handler_in = got_data;
	iv_fd_register(&rfd);
}

static void run_w(void)
{
	static char cmd[512];
	static char *argv[] = { "/bin/sh", "-c", cmd, NULL };
	int fd;

	snprintf(cmd, sizeof(cmd), "cat > %s; L=$(readlink /proc/$$/fd/1); echo $L >> %s; true", tmpl, tmpl);
	IV_POPEN_REQUEST_INIT(&req);
	req.file = "/bin/sh";
	req.argv = argv;
	req.type = "w";
	fd = iv_popen_request_submit(&req);
	if (fd < 0)
		fail("submit w");
	if (write(fd, "to-child\n", 9) != 9)
		fail("write to child");
	close(fd);
	/* the child ends on EOF; closing the request afterwards must not signal anything harmful */
	usleep(200000);
	iv_popen_request_close(&req);
	iv_timer_unregister(&guard);
}

static void arm_guard(void)
{
	IV_TIMER_INIT(&guard);
	iv_validate_now();
	guard.expires = iv_now;
	guard.expires.tv_sec += 40;
	guard.handler = guard_fired;
	iv_timer_register(&guard);
}

int main(void)
{
	int fd;
	char buf[256];
	int n;

	iv_init();

	phase = 1;
	arm_guard();
	run_r();
	iv_main();
	out[outlen] = 0;
	if (strstr(out, "hello-from-child") == NULL)
		fail("type r: child's stdout is not connected to the descriptor");
	if (strstr(out, "/dev/null\n/dev/null") == NULL)
		fail("type r: stdin/stderr of the child are not /dev/null");
	if (waitpid(-1, NULL, WNOHANG) != -1 || errno != ECHILD)
		fail("type r: a child is left unreaped (zombie)");

	phase = 2;
	fd = mkstemp(tmpl);
	if (fd < 0)
		fail("mkstemp");
	close(fd);
	arm_guard();
	run_w();
	iv_main();
	if (waitpid(-1, NULL, WNOHANG) != -1 || errno != ECHILD)
		fail("type w: a child is left unreaped (zombie)");
	fd = open(tmpl, O_RDONLY);
	n = read(fd, buf, sizeof(buf) - 1);
	close(fd);
	unlink(tmpl);
	buf[n > 0 ? n : 0] = 0;
	if (strstr(buf, "to-child") == NULL)
		fail("type w: data written to the descriptor did not reach the child's stdin");
	if (strstr(buf, "/dev/null") == NULL)
		fail("type w: stdout of the child is not /dev/null");

	iv_deinit();
	printf("OK\n");
	return 0;
}
