/*
 * avl_big -- large populations on the real iv_avl.c / iv_avl.h (implementation-only stage of C16).
 * The per-operation dump comparison of avl_drv works on trees of a few hundred nodes; recorded heights there never
 * exceed 10.  The theorems (Avl/*.v) hold at every size; this program checks the implementation at sizes where the
 * stored height needs more than four bits and subtrees cross every power-of-two population up to 2^17:
 *   phase 1: N ascending inserts, phase 2: delete every other key, re-insert every fourth, duplicates rejected,
 *   phase 3: pseudo-random mixed operations, phase 4: drain;
 * at intervals and at the end of each phase: parent links, strict order, recorded height = real height at every
 * node, |balance| <= 1, height <= 1.4405 log2(n + 2), forward and backward traversal = the reference set.
 * The comparator returns values of varying magnitude (only the sign is specified).
 * stdout: "OK <n checks>" or "FAIL <what>"; exit 0 / 1.
 */
#include <stdio.h>
#include <stdlib.h>
#include <string.h>
#include <math.h>
#include <unistd.h>
#include <iv_avl.h>
#include <iv_list.h>

#define N	70000

struct node {
	struct iv_avl_node	an;
	int			key;
	int			live;
};

static struct node nodes[N];
static struct iv_avl_tree tree;
static unsigned long calls;
static long checks;

static int cmp(const struct iv_avl_node *_a, const struct iv_avl_node *_b)
{
	const struct node *a = iv_container_of(_a, struct node, an);
	const struct node *b = iv_container_of(_b, struct node, an);

	calls++;
	if (a->key < b->key)
		return -1 - (int)(calls % 3) * 100;
	if (a->key > b->key)
		return 1 + (int)(calls % 5);
	return 0;
}

static void fail(const char *what, long a, long b)
{
	printf("FAIL %s (%ld, %ld)\n", what, a, b);
	exit(1);
}

static int walk(struct iv_avl_node *an, struct iv_avl_node *parent, int lo, int hi, long *count)
{
	struct node *n;
	int hl, hr, h;

	if (an == NULL)
		return 0;
	n = iv_container_of(an, struct node, an);
	if (an->parent != parent)
		fail("parent link", n->key, 0);
	if (n->key <= lo || n->key >= hi)
		fail("order", n->key, lo);
	if (!n->live)
		fail("a deleted node is in the tree", n->key, 0);
	(*count)++;
	hl = walk(an->left, an, lo, n->key, count);
	hr = walk(an->right, an, n->key, hi, count);
	h = 1 + (hl > hr ? hl : hr);
	if (an->height != h)
		fail("recorded height is not the real height (key, real height)", n->key, h);
	if (hl - hr > 1 || hr - hl > 1)
		fail("balance", n->key, hl - hr);
	return h;
}

static void check(long live)
{
	long count = 0, k;
	int h = walk(tree.root, NULL, -1, N + 1, &count);
	struct iv_avl_node *an;
	int prev;

	if (count != live)
		fail("node count", count, live);
	if (live > 0 && h > 1.4405 * log2((double)live + 2.0))
		fail("height bound", h, live);
	prev = -1; k = 0;
	for (an = iv_avl_tree_min(&tree); an != NULL; an = iv_avl_tree_next(an)) {
		struct node *n = iv_container_of(an, struct node, an);

		if (n->key <= prev || ++k > live)
			fail("forward traversal", n->key, prev);
		prev = n->key;
	}
	if (k != live)
		fail("forward traversal length", k, live);
	prev = N + 1; k = 0;
	for (an = iv_avl_tree_max(&tree); an != NULL; an = iv_avl_tree_prev(an)) {
		struct node *n = iv_container_of(an, struct node, an);

		if (n->key >= prev || ++k > live)
			fail("backward traversal", n->key, prev);
		prev = n->key;
	}
	if (k != live)
		fail("backward traversal length", k, live);
	checks++;
}

static long live;

static void ins(int k)
{
	int rc = iv_avl_tree_insert(&tree, &nodes[k].an);

	if (nodes[k].live) {
		fail("insert of a linked node accepted / tree touched?", k, rc);
	} else if (rc != 0) {
		fail("insert of an absent key refused", k, rc);
	}
	nodes[k].live = 1;
	live++;
}

static void dup_key(int k)
{
	static struct node extra;
	int rc;

	extra.key = k;
	rc = iv_avl_tree_insert(&tree, &extra.an);
	if (rc == 0)
		fail("duplicate key accepted", k, 0);
}

static void del(int k)
{
	iv_avl_tree_delete(&tree, &nodes[k].an);
	nodes[k].live = 0;
	live--;
}

int main(void)
{
	unsigned int seed = 12345;
	int i;

	alarm(120);
	INIT_IV_AVL_TREE(&tree, cmp);
	for (i = 0; i < N; i++)
		nodes[i].key = i;
	check(0);
	for (i = 0; i < N; i++) {
		ins(i);
		if ((i & (i + 1)) == 0 || i % 9973 == 0)
			check(live);
	}
	check(live);
	for (i = 0; i < N; i += 2) {
		del(i);
		if (i % 7919 == 0)
			check(live);
	}
	for (i = 0; i < N; i += 4)
		ins(i);
	for (i = 1; i < N; i += 1001)
		if (nodes[i].live)
			dup_key(i);
	check(live);
	for (i = 0; i < 200000; i++) {
		int k;

		seed = seed * 1103515245u + 12345u;
		k = (seed >> 8) % N;
		if (nodes[k].live)
			del(k);
		else
			ins(k);
		if (i % 19997 == 0)
			check(live);
	}
	check(live);
	for (i = N - 1; i >= 0; i--) {
		if (nodes[i].live)
			del(i);
		if (i % 9973 == 0)
			check(live);
	}
	check(0);
	printf("OK %ld structural checks, %lu comparator calls\n", checks, calls);
	return 0;
}
