/*
 * tsan_stress -- free-running multi-threaded stress of iv_wait and iv_signal on the REAL kernel (real fork,
 * real signals), built with -fsanitize=thread for the C14 check.  NTHR loop threads; every thread runs jobs.
 * A job is one child process and one wait interest:
 *   - started through iv_wait_interest_register_spawn, or (M8) forked by the job itself and registered with
 *     plain iv_wait_interest_register while the other threads reap (the child is held back on a pipe until
 *     the interest is in the tree, so its death cannot be reaped as a stranger);
 *   - (M7) most children go through several state changes: the owner sends SIGSTOP and a little later SIGCONT
 *     (both through iv_wait_interest_kill) before the child exits, so that the reaper -- whichever thread
 *     owns the chosen SIGCHLD interest -- queues a second and third status for the interest while its owner
 *     may be running the completion of the first one; the status handler does not unregister on
 *     stopped / continued;
 *   - ended from the death callback (mode 0); or (M9, mode 1) from a timeout close to the child's death that
 *     calls iv_wait_interest_kill(SIGTERM / SIGKILL) and unregisters at once, while the reaper in another
 *     thread may be setting the DEAD flag; or (modes 2 and 3, half of the jobs) by a plain
 *     iv_wait_interest_unregister from the owner's timer a moment (0-2 ms, around the reaping) AFTER the child
 *     died -- by itself (mode 2) or from a SIGTERM sent earlier (mode 3) -- without waiting for the death
 *     callback and without any other call into iv_wait in between: the reaper (two times out of three another
 *     thread) has just written the interest, and the owner has not synchronised with it through the lock or
 *     through the death notification.  If the death callback wins the race the job ends there.
 * Every signal to a child goes through iv_wait_interest_kill on a registered interest (DEAD flag under
 * iv_wait_lock), never through a raw kill(): the pid of a reaped child may already be somebody else's.
 * A job that ends first kills its child (SIGKILL also ends a stopped child); children die with their parent
 * (PR_SET_PDEATHSIG), so nothing is left behind even when the watchdog fires.
 * The threads also have iv_signal interests (process-wide and this-thread) for SIGUSR1 that they send to each
 * other; how that traffic is wound down without a signal ever meeting the default disposition is described
 * at tick().  The program ends by itself after ROUNDS rounds per thread; exit status 0 unless a watchdog fires.
 * ThreadSanitizer reports go to stderr and make the exit status 66.  Nothing here waits for a time to be
 * "long enough": every timeout only decides WHICH code runs, the program is correct for every timing.
 *
 * usage: tsan_stress <seed> [nthr] [rounds]
 * last line of stdout: DONE <counter>=<n> ...   (what was executed, summed over the threads)
 */
#define _GNU_SOURCE
#include <errno.h>
#include <pthread.h>
#include <signal.h>
#include <stdio.h>
#include <stdlib.h>
#include <string.h>
#include <sys/prctl.h>
#include <sys/wait.h>
#include <unistd.h>
#include <iv.h>
#include <iv_signal.h>
#include <iv_wait.h>

#define MAXTHR 4

struct thr;

struct job {
	struct thr		*t;
	struct iv_wait_interest	wi;
	struct iv_timer		to;		/* end of the job (mode 1) / safety net (mode 0) */
	struct iv_timer		sg;		/* stop / continue script */
	int			live;		/* interest registered */
	int			mode;		/* 0: unregister in the death callback; 1: kill + unregister from the timeout;
						 * 2, 3: plain unregister from a timer just after the death */
	int			sgstep;		/* 0: SIGSTOP due, 1: SIGCONT due */
	long			sg_us[2];
	int			nstatus;	/* statuses delivered for this child */
};

enum { C_SPAWN, C_PLAIN, C_UNREG, C_UNREG_LATE, C_KILL, C_KILL_ESRCH, C_STOP, C_CONT, C_STATUS, C_STOPPED, C_CONTINUED, C_DEAD,
       C_MULTI, C_TIMEOUT_END, C_SIG, C_NCOUNT };
static const char *cname[C_NCOUNT] = { "register_spawn", "register_plain", "unregister", "unregister_after_death_timer", "kill", "kill_esrch", "stop_sent",
	"cont_sent", "statuses", "stopped", "continued", "dead", "multi_status_jobs", "timeout_ends", "signals" };

struct thr {
	int			idx;
	pthread_t		tid;
	unsigned		seed;
	int			rounds;
	int			done;
	struct job		job[2];
	struct iv_signal	sig_all;	/* process-wide, shared */
	struct iv_signal	sig_me;		/* this-thread */
	struct iv_timer		tick;
	long			cnt[C_NCOUNT];
};

static struct thr thr[MAXTHR];
static int nthr = 3;
static int rounds = 12;
static pthread_barrier_t start_barrier;
static int finished[MAXTHR];		/* accessed with __atomic builtins: has stopped sending and taking SIGUSR1 */
static int nexited;			/* threads != 0 whose loop has ended and that have SIGUSR1 blocked */

static void child_body(long us)
{
	if (us > 0)
		usleep(us);
	_exit(7);
}

static void child_fn(void *cookie)
{
	prctl(PR_SET_PDEATHSIG, SIGKILL);
	child_body((long)cookie);
}

static void timer_in(struct iv_timer *tm, long us)
{
	iv_validate_now();
	tm->expires = iv_now;
	tm->expires.tv_nsec += us * 1000L;
	while (tm->expires.tv_nsec >= 1000000000L) {
		tm->expires.tv_nsec -= 1000000000L;
		tm->expires.tv_sec++;
	}
	iv_timer_register(tm);
}

/* the only way a signal is sent to a child */
static void job_kill(struct job *j, int sig)
{
	int ret = iv_wait_interest_kill(&j->wi, sig);

	j->t->cnt[C_KILL]++;
	if (ret == -ESRCH)
		j->t->cnt[C_KILL_ESRCH]++;
}

static void start_job(struct job *j);

static void job_finish(struct job *j)
{
	struct thr *t = j->t;

	if (iv_timer_registered(&j->to))
		iv_timer_unregister(&j->to);
	if (iv_timer_registered(&j->sg))
		iv_timer_unregister(&j->sg);
	if (j->live) {
		/* the child may be alive, stopped, dying in another thread's reaper right now, or long gone.
		 * Modes 2 and 3 never stop their child and it ends by itself within milliseconds: no kill, the
		 * unregistration must be the first call into iv_wait since the child died */
		if (j->mode < 2)
			job_kill(j, SIGKILL);
		iv_wait_interest_unregister(&j->wi);
		t->cnt[C_UNREG]++;
		j->live = 0;
	}
	if (j->nstatus > 1)
		t->cnt[C_MULTI]++;
	t->done++;
	if (t->done + 1 < t->rounds * 2)
		start_job(j);
}

static void job_status(void *cookie, int status, const struct rusage *ru)
{
	struct job *j = cookie;

	(void)ru;
	j->nstatus++;
	j->t->cnt[C_STATUS]++;
	if (WIFSTOPPED(status)) {
		j->t->cnt[C_STOPPED]++;
		return;
	}
	if (WIFCONTINUED(status)) {
		j->t->cnt[C_CONTINUED]++;
		return;
	}
	if (!WIFEXITED(status) && !WIFSIGNALED(status))
		return;
	j->t->cnt[C_DEAD]++;
	if (j->mode != 1)
		job_finish(j);
}

static void job_timeout(void *cookie)
{
	struct job *j = cookie;

	/* kill and unregister while the child may be dying right now in another thread's reaper */
	j->t->cnt[C_TIMEOUT_END]++;
	if (j->mode == 1)
		job_kill(j, SIGTERM);
	if (j->mode >= 2)
		j->t->cnt[C_UNREG_LATE]++;
	job_finish(j);
}

static void job_sigstep(void *cookie)
{
	struct job *j = cookie;

	if (j->mode == 3) {
		/* the child dies now; the unregistration follows 0-2 ms later (timer `to`) */
		job_kill(j, SIGTERM);
		return;
	}
	if (j->sgstep == 0) {
		job_kill(j, SIGSTOP);
		j->t->cnt[C_STOP]++;
		j->sgstep = 1;
		timer_in(&j->sg, j->sg_us[1]);
	} else {
		job_kill(j, SIGCONT);
		j->t->cnt[C_CONT]++;
	}
}

static void job_lost(struct job *j)
{
	/* fork / pipe failed: the round counts, the slot is tried again */
	j->t->done++;
	if (j->t->done + 1 < j->t->rounds * 2)
		timer_in(&j->to, 1000);
}

static void job_retry(void *cookie)
{
	start_job(cookie);
}

static void start_job(struct job *j)
{
	struct thr *t = j->t;
	long child_us = 3000 + rand_r(&t->seed) % 6000;
	int plain = rand_r(&t->seed) % 2;
	int stopcont = rand_r(&t->seed) % 8 != 0;
	int m = rand_r(&t->seed) % 8;
	long late_us = rand_r(&t->seed) % 2000;

	j->mode = m < 2 ? 0 : m < 4 ? 1 : m < 6 ? 2 : 3;
	j->nstatus = 0;
	j->live = 0;
	IV_WAIT_INTEREST_INIT(&j->wi);
	j->wi.cookie = j;
	j->wi.handler = job_status;
	IV_TIMER_INIT(&j->to);
	j->to.cookie = j;
	j->to.handler = job_retry;
	IV_TIMER_INIT(&j->sg);
	j->sg.cookie = j;
	j->sg.handler = job_sigstep;

	if (!plain) {
		if (iv_wait_interest_register_spawn(&j->wi, child_fn, (void *)child_us) < 0) {
			job_lost(j);
			return;
		}
		t->cnt[C_SPAWN]++;
	} else {
		int gate[2];
		pid_t pid;
		char c = 'g';

		if (pipe(gate) < 0) {
			job_lost(j);
			return;
		}
		pid = fork();
		if (pid < 0) {
			close(gate[0]);
			close(gate[1]);
			job_lost(j);
			return;
		}
		if (pid == 0) {
			/* held back until the interest is in the tree: a death before that would be reaped as a
			 * stranger's and never reported */
			prctl(PR_SET_PDEATHSIG, SIGKILL);
			close(gate[1]);
			while (read(gate[0], &c, 1) < 0 && errno == EINTR)
				;
			child_body(child_us);
		}
		j->wi.pid = pid;
		iv_wait_interest_register(&j->wi);
		t->cnt[C_PLAIN]++;
		if (write(gate[1], &c, 1) < 0)
			;
		close(gate[0]);
		close(gate[1]);
	}
	j->live = 1;
	j->to.handler = job_timeout;
	if (j->mode == 0) {
		/* a generous safety net */
		timer_in(&j->to, 300000L);
	} else if (j->mode == 1) {
		/* a timeout close to the child's life time */
		timer_in(&j->to, child_us + rand_r(&t->seed) % 400);
	} else if (j->mode == 2) {
		/* the child exits by itself after child_us */
		timer_in(&j->to, child_us + late_us);
	} else {
		/* SIGTERM somewhere in the child's life, the unregistration a moment later */
		long term_us = 500 + rand_r(&t->seed) % (child_us - 500);

		timer_in(&j->sg, term_us);
		timer_in(&j->to, term_us + late_us);
	}
	if (stopcont && j->mode < 2) {
		j->sgstep = 0;
		j->sg_us[0] = 100 + rand_r(&t->seed) % 2000;
		j->sg_us[1] = 1000 + rand_r(&t->seed) % 3000;
		timer_in(&j->sg, j->sg_us[0]);
	}
}

static void got_sig(void *cookie)
{
	struct thr *t = cookie;

	t->cnt[C_SIG]++;
}

/*
 * The end of the SIGUSR1 traffic.  As long as one interest for SIGUSR1 exists the disposition is the library's
 * handler; when the last one goes it is SIG_DFL again, and a SIGUSR1 that is delivered then kills the
 * process.  Ordering the SENDS before the last unregistration is not enough: a process-directed signal can
 * stay pending for any length of time.  So:
 *  - a thread that has finished its rounds sends nothing any more; it blocks SIGUSR1 in itself before it
 *    unregisters its interests (nothing is delivered to it from then on; what is pending for it alone is
 *    discarded when it exits), runs its loop down, and only after iv_deinit counts itself in `nexited`;
 *  - thread 0 keeps its interests until its own rounds are done AND every other thread has counted itself
 *    exited.  All sends have returned by then, every other thread has SIGUSR1 blocked (the runtime's own
 *    threads block all signals), so a signal still pending can only be taken by thread 0.  It blocks
 *    SIGUSR1 too, consumes whatever is pending for the process or itself with sigtimedwait(timeout 0) until
 *    EAGAIN, and only then unregisters; SIGUSR1 stays blocked in every thread until the process exits;
 *  - at the other end, no thread sends before all threads have registered their interests (second wait on
 *    the start barrier in thread_main).
 * SIGCHLD needs nothing of the kind: when the last wait interest of the process goes, its disposition
 * returns to the default, which is to ignore it.  The signals sent to children (STOP / CONT / TERM / KILL)
 * never come back to this process.
 */
static void block_sigusr1(void)
{
	sigset_t set;

	sigemptyset(&set);
	sigaddset(&set, SIGUSR1);
	pthread_sigmask(SIG_BLOCK, &set, NULL);
}

static void drain_sigusr1(void)
{
	sigset_t set;
	struct timespec zero = { 0, 0 };

	sigemptyset(&set);
	sigaddset(&set, SIGUSR1);
	while (sigtimedwait(&set, NULL, &zero) >= 0 || errno == EINTR)
		;
}

static void tick(void *cookie)
{
	struct thr *t = cookie;
	int mine_done = (t->done + 1 >= t->rounds * 2);
	int target = (t->idx + 1) % nthr;

	if (mine_done && t->idx != 0) {
		block_sigusr1();
		__atomic_store_n(&finished[t->idx], 1, __ATOMIC_RELEASE);
		iv_signal_unregister(&t->sig_all);
		iv_signal_unregister(&t->sig_me);
		return;
	}
	if (mine_done && __atomic_load_n(&nexited, __ATOMIC_ACQUIRE) == nthr - 1) {
		block_sigusr1();
		drain_sigusr1();
		iv_signal_unregister(&t->sig_all);
		iv_signal_unregister(&t->sig_me);
		return;
	}
	if (!mine_done) {
		/* poke another thread (this-thread interests) and the process (shared interests) */
		if (!__atomic_load_n(&finished[target], __ATOMIC_ACQUIRE))
			pthread_kill(thr[target].tid, SIGUSR1);
		if (rand_r(&t->seed) % 3 == 0)
			kill(getpid(), SIGUSR1);
	}
	timer_in(&t->tick, 2000);
}

static void *thread_main(void *arg)
{
	struct thr *t = arg;
	int i;

	t->tid = pthread_self();
	pthread_barrier_wait(&start_barrier);
	iv_init();
	IV_SIGNAL_INIT(&t->sig_all);
	t->sig_all.signum = SIGUSR1;
	t->sig_all.flags = 0;
	t->sig_all.cookie = t;
	t->sig_all.handler = got_sig;
	iv_signal_register(&t->sig_all);
	IV_SIGNAL_INIT(&t->sig_me);
	t->sig_me.signum = SIGUSR1;
	t->sig_me.flags = IV_SIGNAL_FLAG_THIS_THREAD;
	t->sig_me.cookie = t;
	t->sig_me.handler = got_sig;
	iv_signal_register(&t->sig_me);
	/* nobody sends SIGUSR1 before every thread -- thread 0, whose interests are the last to go, in particular --
	 * has its interests: a thread that is starved at the start could otherwise find a thread-directed signal
	 * waiting for it after a fast thread has come and gone and taken the handler with it */
	pthread_barrier_wait(&start_barrier);
	IV_TIMER_INIT(&t->tick);
	t->tick.cookie = t;
	t->tick.handler = tick;
	timer_in(&t->tick, 0);
	for (i = 0; i < 2; i++) {
		t->job[i].t = t;
		start_job(&t->job[i]);
	}
	iv_main();
	iv_deinit();
	if (t->idx != 0) {
		block_sigusr1();	/* already blocked in tick(); the count below must never precede it */
		__atomic_add_fetch(&nexited, 1, __ATOMIC_ACQ_REL);
	}
	return NULL;
}

int main(int argc, char **argv)
{
	unsigned seed = argc > 1 ? atoi(argv[1]) : 1;
	int i, c;

	if (argc > 2)
		nthr = atoi(argv[2]);
	if (argc > 3)
		rounds = atoi(argv[3]);
	if (nthr < 2 || nthr > MAXTHR)
		nthr = 3;
	alarm(40);

	/* the first iv_init happens before any other thread uses the library (documented precondition) */
	iv_init();
	/* SIGUSR1 must not kill the process before the interests exist */
	signal(SIGUSR1, SIG_IGN);
	for (i = 0; i < nthr; i++) {
		thr[i].idx = i;
		thr[i].seed = seed * 977 + i * 131 + 1;
		thr[i].rounds = rounds;
	}
	pthread_barrier_init(&start_barrier, NULL, nthr);
	{
		pthread_t tmp[MAXTHR];

		for (i = 1; i < nthr; i++)
			pthread_create(&tmp[i], NULL, thread_main, &thr[i]);
	}
	iv_deinit();
	thread_main(&thr[0]);
	for (i = 1; i < nthr; i++)
		pthread_join(thr[i].tid, NULL);
	/* reap stragglers (children killed by the last job_finish calls) */
	while (waitpid(-1, NULL, WNOHANG) > 0)
		;
	printf("DONE");
	for (c = 0; c < C_NCOUNT; c++) {
		long sum = 0;

		for (i = 0; i < nthr; i++)
			sum += thr[i].cnt[c];
		printf(" %s=%ld", cname[c], sum);
	}
	printf("\n");
	return 0;
}
