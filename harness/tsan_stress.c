/*
 * tsan_stress -- free-running multi-threaded stress of iv_wait and iv_signal on the REAL kernel (real fork,
 * real signals), built with -fsanitize=thread for the C14 check.  NTHR loop threads; every thread spawns
 * short-lived children through iv_wait_interest_register_spawn, unregisters some interests from their death
 * callback and others from a timeout that races with the child's death (the reaper is whichever thread owns
 * the chosen SIGCHLD interest, so interests of one thread are marked dead by another), and has iv_signal
 * interests (process-wide and this-thread) for SIGUSR1 that the threads send to each other.  The program ends
 * by itself after ROUNDS rounds per thread; exit status 0 unless a watchdog fires.  ThreadSanitizer reports go
 * to stderr and make the exit status 66.
 *
 * usage: tsan_stress <seed> [nthr] [rounds]
 */
#define _GNU_SOURCE
#include <pthread.h>
#include <signal.h>
#include <stdio.h>
#include <stdlib.h>
#include <string.h>
#include <sys/wait.h>
#include <unistd.h>
#include <iv.h>
#include <iv_signal.h>
#include <iv_wait.h>

#define MAXTHR 4

struct thr;

struct job {
	struct thr		*t;
	struct iv_wait_interest	wi;
	struct iv_timer		to;
	int			live;		/* interest registered */
	int			mode;		/* 0: unregister in the death callback; 1: from the timeout */
};

struct thr {
	int			idx;
	pthread_t		tid;
	unsigned		seed;
	int			rounds;
	int			done;
	struct job		job[2];
	struct iv_signal	sig_all;	/* process-wide, shared */
	struct iv_signal	sig_me;		/* this-thread */
	struct iv_timer		tick;
	int			sigcount;
};

static struct thr thr[MAXTHR];
static int nthr = 3;
static int rounds = 12;
static pthread_barrier_t start_barrier;
static int finished[MAXTHR];		/* accessed with __atomic builtins */
static int nfinished;

static void child_fn(void *cookie)
{
	long us = (long)cookie;

	if (us > 0)
		usleep(us);
	_exit(7);
}

static void start_job(struct job *j);

static void job_finish(struct job *j)
{
	struct thr *t = j->t;

	if (iv_timer_registered(&j->to))
		iv_timer_unregister(&j->to);
	if (j->live) {
		iv_wait_interest_unregister(&j->wi);
		j->live = 0;
	}
	t->done++;
	if (t->done + 1 < t->rounds * 2)
		start_job(j);
}

static void job_died(void *cookie, int status, const struct rusage *ru)
{
	struct job *j = cookie;

	(void)ru;
	if (!WIFEXITED(status) && !WIFSIGNALED(status))
		return;
	if (j->mode == 0)
		job_finish(j);
}

static void job_timeout(void *cookie)
{
	struct job *j = cookie;

	/* unregister while the child may be dying right now in another thread's reaper */
	job_finish(j);
}

static void start_job(struct job *j)
{
	struct thr *t = j->t;
	long child_us = rand_r(&t->seed) % 3000;

	j->mode = rand_r(&t->seed) % 2;
	IV_WAIT_INTEREST_INIT(&j->wi);
	j->wi.cookie = j;
	j->wi.handler = job_died;
	if (iv_wait_interest_register_spawn(&j->wi, child_fn, (void *)child_us) < 0) {
		t->done++;
		return;
	}
	j->live = 1;
	IV_TIMER_INIT(&j->to);
	j->to.cookie = j;
	j->to.handler = job_timeout;
	iv_validate_now();
	j->to.expires = iv_now;
	/* mode 1: a timeout close to the child's life time; mode 0: a generous safety timeout */
	j->to.expires.tv_nsec += (j->mode ? (child_us + rand_r(&t->seed) % 400) * 1000L : 300000000L);
	while (j->to.expires.tv_nsec >= 1000000000L) {
		j->to.expires.tv_nsec -= 1000000000L;
		j->to.expires.tv_sec++;
	}
	iv_timer_register(&j->to);
}

static void got_sig(void *cookie)
{
	struct thr *t = cookie;

	t->sigcount++;
}

static void tick(void *cookie)
{
	struct thr *t = cookie;
	int mine_done = (t->done + 1 >= t->rounds * 2);
	int target = (t->idx + 1) % nthr;

	/* thread 0 keeps an interest alive until every other thread is done, so that the disposition of SIGUSR1
	 * never returns to the default while somebody may still send it */
	if (mine_done && (t->idx != 0 || __atomic_load_n(&nfinished, __ATOMIC_ACQUIRE) == nthr - 1)) {
		iv_signal_unregister(&t->sig_all);
		iv_signal_unregister(&t->sig_me);
		if (t->idx != 0) {
			__atomic_store_n(&finished[t->idx], 1, __ATOMIC_RELEASE);
			__atomic_add_fetch(&nfinished, 1, __ATOMIC_ACQ_REL);
		}
		return;
	}
	if (!mine_done) {
		/* poke another thread (this-thread interests) and the process (shared interests) */
		if (!__atomic_load_n(&finished[target], __ATOMIC_ACQUIRE))
			pthread_kill(thr[target].tid, SIGUSR1);
		if (rand_r(&t->seed) % 3 == 0)
			kill(getpid(), SIGUSR1);
	}
	iv_validate_now();
	t->tick.expires = iv_now;
	t->tick.expires.tv_nsec += 2000000;
	if (t->tick.expires.tv_nsec >= 1000000000L) {
		t->tick.expires.tv_nsec -= 1000000000L;
		t->tick.expires.tv_sec++;
	}
	iv_timer_register(&t->tick);
}

static void *thread_main(void *arg)
{
	struct thr *t = arg;
	int i;

	t->tid = pthread_self();
	pthread_barrier_wait(&start_barrier);
	iv_init();
	IV_SIGNAL_INIT(&t->sig_all);
	t->sig_all.signum = SIGUSR1;
	t->sig_all.flags = 0;
	t->sig_all.cookie = t;
	t->sig_all.handler = got_sig;
	iv_signal_register(&t->sig_all);
	IV_SIGNAL_INIT(&t->sig_me);
	t->sig_me.signum = SIGUSR1;
	t->sig_me.flags = IV_SIGNAL_FLAG_THIS_THREAD;
	t->sig_me.cookie = t;
	t->sig_me.handler = got_sig;
	iv_signal_register(&t->sig_me);
	IV_TIMER_INIT(&t->tick);
	t->tick.cookie = t;
	t->tick.handler = tick;
	iv_validate_now();
	t->tick.expires = iv_now;
	iv_timer_register(&t->tick);
	for (i = 0; i < 2; i++) {
		t->job[i].t = t;
		start_job(&t->job[i]);
	}
	iv_main();
	iv_deinit();
	return NULL;
}

int main(int argc, char **argv)
{
	unsigned seed = argc > 1 ? atoi(argv[1]) : 1;
	sigset_t set;
	int i;

	if (argc > 2)
		nthr = atoi(argv[2]);
	if (argc > 3)
		rounds = atoi(argv[3]);
	if (nthr < 2 || nthr > MAXTHR)
		nthr = 3;
	alarm(25);

	/* the first iv_init happens before any other thread uses the library (documented precondition) */
	iv_init();
	/* SIGUSR1 must not kill the process before the interests exist */
	signal(SIGUSR1, SIG_IGN);
	sigemptyset(&set);
	for (i = 0; i < nthr; i++) {
		thr[i].idx = i;
		thr[i].seed = seed * 977 + i * 131 + 1;
		thr[i].rounds = rounds;
	}
	pthread_barrier_init(&start_barrier, NULL, nthr);
	{
		pthread_t tmp[MAXTHR];

		for (i = 1; i < nthr; i++)
			pthread_create(&tmp[i], NULL, thread_main, &thr[i]);
	}
	iv_deinit();
	thread_main(&thr[0]);
	for (i = 1; i < nthr; i++)
		pthread_join(thr[i].tid, NULL);
	/* reap stragglers */
	while (waitpid(-1, NULL, WNOHANG) > 0)
		;
	printf("DONE\n");
	return 0;
}
