/*
 * tls_drv -- drives /repo/src/iv_tls.c through the real iv_init / iv_deinit for the C18 correspondence stage
 * `TLS` (against the extracted Small/TlsModel.v).
 *
 * The library registers its own iv_tls_users from constructors (iv_signal, iv_thread, iv_work, iv_wait,
 * iv_fd_pump, ...) before main() runs.  The harness finds them by walking the registration list backwards from
 * its own first user (struct iv_tls_user is public, the list is linked through itu->list) and reports their
 * sizes, hooks and offsets too, so that the model runs the complete registration sequence from the static
 * initialiser on.  Their hook pointers are replaced by recording trampolines that call the original.
 *
 *   tls_drv probe          prints "S=<sizeof(struct iv_state)> L=<size><flags>,..." (flags: i = init hook, d = deinit hook)
 *   tls_drv < cases        one case per line, one process (fork) per case:
 *       TLS S=<S> L=<size><flags>,.. U=<size><flags>,..
 *     (S and L as reported by `probe`; U = the users the harness registers before iv_init, at least one)
 *
 * output, segments joined by " | ":
 *   S=<S> | lib <size>@<off> .. | usr <size>@<off> .. | total=<n> | pre N .. (__iv_tls_user_ptr(NULL, u)) | init <id>@<off> .. |
 *   ptr <off> .. | late=<F|returned> | unreg=<F|returned> | deinit <id>@<off> .. | ok
 *   (ids: L<k> library user k, U<k> own user k; offsets relative to the state block)
 *
 * checks made on the way (a failure prints TLS-CHECK-FAILED on stderr and exits 3 = a crash of the case):
 *   every own area is zero and 16-byte aligned when first seen (inside the init hook if the user has one);
 *   each own area is filled with its own byte pattern; in every deinit hook and before iv_deinit all own areas
 *   still hold their patterns; writing the areas of hook-less users changes no byte outside them.
 *   ASan: the state block is one calloc(total) -- an area reaching past the total is a heap-buffer-overflow.
 */
#include <stdio.h>
#include <stdlib.h>
#include <string.h>
#include <stdint.h>
#include <stdarg.h>
#include <unistd.h>
#include <signal.h>
#include <sys/wait.h>
#include <iv.h>
#include <iv_tls.h>
#include "iv_private.h"

#define MAXU 64
#define MAXLIB 16

static struct iv_tls_user *own[MAXU];
static int nown;
static int own_seen[MAXU];		/* area checked for zero + alignment and filled */

static struct iv_tls_user *lib[MAXLIB];
static void (*lib_init[MAXLIB])(void *);
static void (*lib_deinit[MAXLIB])(void *);
static int nlib;

static char out[65536];
static size_t outlen;

static void add(const char *fmt, ...) __attribute__((format(printf, 1, 2)));
static void add(const char *fmt, ...)
{
	va_list ap;

	va_start(ap, fmt);
	outlen += vsnprintf(out + outlen, sizeof(out) - outlen, fmt, ap);
	va_end(ap);
	if (outlen >= sizeof(out) - 1) {
		fprintf(stderr, "tls_drv: output too long\n");
		exit(2);
	}
}

static void check_failed(const char *fmt, ...) __attribute__((format(printf, 1, 2)));
static void check_failed(const char *fmt, ...)
{
	va_list ap;

	fprintf(stderr, "TLS-CHECK-FAILED: ");
	va_start(ap, fmt);
	vfprintf(stderr, fmt, ap);
	va_end(ap);
	fprintf(stderr, "\n");
	exit(3);
}

static char calls[16384];
static size_t callslen;

static void record_call(char kind, int k, void *area)
{
	long off = (char *)area - (char *)iv_get_state();

	callslen += snprintf(calls + callslen, sizeof(calls) - callslen, " %c%d@%ld", kind, k, off);
}

static unsigned char pattern_of(int k)
{
	return 0xA0 + k;
}

static void first_sight(int k, void *area)
{
	unsigned char *p = area;
	size_t i;

	if (own_seen[k])
		check_failed("area of user %d seen twice", k);
	own_seen[k] = 1;
	if (((uintptr_t)area & 15) != 0)
		check_failed("area of user %d (offset %d) is not 16-byte aligned: %p", k, own[k]->state_offset, area);
	for (i = 0; i < own[k]->sizeof_state; i++) {
		if (p[i] != 0)
			check_failed("area of user %d (offset %d, size %zu) is not zero at byte %zu: 0x%02x", k,
				     own[k]->state_offset, own[k]->sizeof_state, i, p[i]);
	}
	memset(area, pattern_of(k), own[k]->sizeof_state);
}

static void check_patterns(const char *when)
{
	struct iv_state *st = iv_get_state();
	int k;

	for (k = 0; k < nown; k++) {
		unsigned char *p = (unsigned char *)st + own[k]->state_offset;
		size_t i;

		if (!own_seen[k])
			continue;
		for (i = 0; i < own[k]->sizeof_state; i++) {
			if (p[i] != pattern_of(k))
				check_failed("%s: area of user %d (offset %d, size %zu) disturbed at byte %zu: 0x%02x instead of 0x%02x",
					     when, k, own[k]->state_offset, own[k]->sizeof_state, i, p[i], pattern_of(k));
		}
	}
}

static void own_init_hook(int k, void *area)
{
	record_call('U', k, area);
	if (area != (char *)iv_get_state() + own[k]->state_offset)
		check_failed("init hook of user %d got %p, not state + state_offset", k, area);
	first_sight(k, area);
}

static void own_deinit_hook(int k, void *area)
{
	record_call('U', k, area);
	if (area != (char *)iv_get_state() + own[k]->state_offset)
		check_failed("deinit hook of user %d got %p, not state + state_offset", k, area);
	check_patterns("deinit hook");
}

/* C has no closures: one pair of trampolines per index */
#define TR(k) \
	static void oi##k(void *a) { own_init_hook(k, a); } \
	static void od##k(void *a) { own_deinit_hook(k, a); }
#define TL(k) \
	static void li##k(void *a) { record_call('L', k, a); lib_init[k](a); } \
	static void ld##k(void *a) { record_call('L', k, a); lib_deinit[k](a); }
TR(0) TR(1) TR(2) TR(3) TR(4) TR(5) TR(6) TR(7) TR(8) TR(9) TR(10) TR(11) TR(12) TR(13) TR(14) TR(15)
TR(16) TR(17) TR(18) TR(19) TR(20) TR(21) TR(22) TR(23) TR(24) TR(25) TR(26) TR(27) TR(28) TR(29) TR(30) TR(31)
TL(0) TL(1) TL(2) TL(3) TL(4) TL(5) TL(6) TL(7) TL(8) TL(9) TL(10) TL(11) TL(12) TL(13) TL(14) TL(15)
#define N32(p) { p##0, p##1, p##2, p##3, p##4, p##5, p##6, p##7, p##8, p##9, p##10, p##11, p##12, p##13, p##14, p##15, \
		 p##16, p##17, p##18, p##19, p##20, p##21, p##22, p##23, p##24, p##25, p##26, p##27, p##28, p##29, p##30, p##31 }
#define N16(p) { p##0, p##1, p##2, p##3, p##4, p##5, p##6, p##7, p##8, p##9, p##10, p##11, p##12, p##13, p##14, p##15 }
static void (*const own_init_tr[32])(void *) = N32(oi);
static void (*const own_deinit_tr[32])(void *) = N32(od);
static void (*const lib_init_tr[16])(void *) = N16(li);
static void (*const lib_deinit_tr[16])(void *) = N16(ld);

/* the library's users: everything between the list head and our first user */
static void find_lib_users(struct iv_tls_user *first_own)
{
	struct iv_list_head *head = first_own->list.next;	/* registered last so far: next is the head */
	struct iv_list_head *ilh;

	nlib = 0;
	for (ilh = head->next; ilh != &first_own->list; ilh = ilh->next) {
		if (nlib >= MAXLIB) {
			fprintf(stderr, "tls_drv: too many library users\n");
			exit(2);
		}
		lib[nlib++] = iv_container_of(ilh, struct iv_tls_user, list);
	}
}

static void flags_of(const struct iv_tls_user *u, char *buf)
{
	int n = 0;

	if (u->init_thread != NULL)
		buf[n++] = 'i';
	if (u->deinit_thread != NULL)
		buf[n++] = 'd';
	buf[n] = 0;
}

static struct iv_tls_user *new_user(size_t size, int k, int has_init, int has_deinit)
{
	struct iv_tls_user *u = calloc(1, sizeof(*u));	/* state_offset 0 as in a static struct */

	if (u == NULL)
		exit(2);
	u->sizeof_state = size;
	u->init_thread = has_init ? own_init_tr[k] : NULL;
	u->deinit_thread = has_deinit ? own_deinit_tr[k] : NULL;
	return u;
}

static void lib_spec(char *buf, size_t len)
{
	size_t n = 0;
	int k;

	buf[0] = 0;
	for (k = 0; k < nlib; k++) {
		char fl[4];

		flags_of(lib[k], fl);
		n += snprintf(buf + n, len - n, "%s%zu%s", k ? "," : "", lib[k]->sizeof_state, fl);
	}
	if (nlib == 0)
		snprintf(buf, len, "-");
}

static int fatal_pipe = -1;

static void fatal_to_pipe(const char *msg)
{
	if (fatal_pipe >= 0) {
		ssize_t r = write(fatal_pipe, msg, strlen(msg));
		(void)r;
	}
}

/* run f(arg) in a forked child; "F" if it died in abort() after iv_fatal said `expect`, else what happened */
static const char *expect_fatal(void (*f)(void *), void *arg, const char *expect)
{
	static char res[256];
	char msg[256];
	int pfd[2];
	pid_t pid;
	int status;
	ssize_t n;

	fflush(NULL);
	if (pipe(pfd) < 0)
		exit(2);
	pid = fork();
	if (pid < 0)
		exit(2);
	if (pid == 0) {
		close(pfd[0]);
		fatal_pipe = pfd[1];
		iv_set_fatal_msg_handler(fatal_to_pipe);
		signal(SIGABRT, SIG_DFL);
		f(arg);
		_exit(0);
	}
	close(pfd[1]);
	n = read(pfd[0], msg, sizeof(msg) - 1);
	if (n < 0)
		n = 0;
	msg[n] = 0;
	close(pfd[0]);
	if (waitpid(pid, &status, 0) != pid)
		exit(2);
	if (WIFSIGNALED(status) && WTERMSIG(status) == SIGABRT && strstr(msg, expect) != NULL)
		return "F";
	if (WIFEXITED(status) && WEXITSTATUS(status) == 0)
		return "returned";
	snprintf(res, sizeof(res), "status-0x%x-msg-%s", status, msg);
	for (n = 0; res[n]; n++) {
		if (res[n] == ' ' || res[n] == '|')
			res[n] = '_';
	}
	return res;
}

static void do_late_register(void *arg)
{
	iv_tls_user_register(arg);
}

static void do_user_ptr(void *arg)
{
	volatile void *p = iv_tls_user_ptr(arg);
	(void)p;
}

static void parse_users(const char *spec, size_t *sizes, int *fi, int *fd, int *n, int max)
{
	const char *p = spec;

	*n = 0;
	if (strcmp(spec, "-") == 0)
		return;
	while (*p) {
		char *end;
		unsigned long v = strtoul(p, &end, 10);

		if (end == p || *n >= max) {
			fprintf(stderr, "tls_drv: bad user list %s\n", spec);
			exit(2);
		}
		sizes[*n] = v;
		fi[*n] = fd[*n] = 0;
		p = end;
		while (*p == 'i' || *p == 'd') {
			if (*p == 'i')
				fi[*n] = 1;
			else
				fd[*n] = 1;
			p++;
		}
		(*n)++;
		if (*p == ',')
			p++;
	}
}

static void run_case(char *line)
{
	char *sS = NULL, *sL = NULL, *sU = NULL, *tok, *save;
	size_t usz[MAXU];
	int ui[MAXU], ud[MAXU], nu, k;
	char libspec[1024];
	struct iv_state *st;
	unsigned char *snap;
	int total;
	struct iv_tls_user *extra;

	for (tok = strtok_r(line, " ", &save); tok; tok = strtok_r(NULL, " ", &save)) {
		if (!strncmp(tok, "S=", 2))
			sS = tok + 2;
		else if (!strncmp(tok, "L=", 2))
			sL = tok + 2;
		else if (!strncmp(tok, "U=", 2))
			sU = tok + 2;
	}
	if (sS == NULL || sL == NULL || sU == NULL) {
		fprintf(stderr, "tls_drv: bad case\n");
		exit(2);
	}
	parse_users(sU, usz, ui, ud, &nu, 32);
	if (nu < 1) {
		fprintf(stderr, "tls_drv: at least one user needed\n");
		exit(2);
	}

	/* registrations before iv_init */
	nown = nu;
	for (k = 0; k < nu; k++) {
		own[k] = new_user(usz[k], k, ui[k], ud[k]);
		iv_tls_user_register(own[k]);
		if (k == 0)
			find_lib_users(own[0]);
	}
	lib_spec(libspec, sizeof(libspec));
	/* the case was generated for this library build? (S and L are inputs of the model) */
	add("S=%zu", sizeof(struct iv_state));
	if ((size_t)atol(sS) != sizeof(struct iv_state) || strcmp(sL, libspec) != 0)
		add(" L=%s (case was generated for S=%s L=%s)", libspec, sS, sL);
	add(" | lib");
	for (k = 0; k < nlib; k++)
		add(" %zu@%d", lib[k]->sizeof_state, lib[k]->state_offset);
	add(" | usr");
	for (k = 0; k < nu; k++)
		add(" %zu@%d", own[k]->sizeof_state, own[k]->state_offset);
	total = iv_tls_total_state_size();
	add(" | total=%d", total);

	/* __iv_tls_user_ptr without a state block (a thread that never called iv_init; iv_tls_user_ptr itself may only
	   be called once the library's pthread key exists) */
	add(" | pre");
	for (k = 0; k < nu; k++)
		add(" %s", __iv_tls_user_ptr(NULL, own[k]) == NULL ? "N" : "nonnull");

	/* observe the library's own hooks too */
	for (k = 0; k < nlib; k++) {
		lib_init[k] = lib[k]->init_thread;
		lib_deinit[k] = lib[k]->deinit_thread;
		if (lib_init[k] != NULL)
			lib[k]->init_thread = lib_init_tr[k];
		if (lib_deinit[k] != NULL)
			lib[k]->deinit_thread = lib_deinit_tr[k];
	}

	callslen = 0;
	calls[0] = 0;
	iv_init();
	add(" | init%s", calls);
	st = iv_get_state();

	/* users without init hook: first sight from here; nothing outside their areas may change */
	snap = malloc(total > 0 ? total : 1);
	if (snap == NULL)
		exit(2);
	memcpy(snap, st, total);
	add(" | ptr");
	for (k = 0; k < nu; k++) {
		char *p = iv_tls_user_ptr(own[k]);

		add(" %ld", (long)(p - (char *)st));
		if (!own_seen[k]) {
			first_sight(k, p);
			memset(snap + own[k]->state_offset, pattern_of(k), own[k]->sizeof_state);	/* ASan checks the bound */
		}
	}
	if (memcmp(snap, st, total) != 0) {
		int i;

		for (i = 0; i < total; i++) {
			if (snap[i] != ((unsigned char *)st)[i])
				break;
		}
		check_failed("writing the areas changed byte %d of the state block outside them", i);
	}
	free(snap);
	check_patterns("after iv_init");

	/* registration after iv_init and iv_tls_user_ptr on an unregistered struct must be fatal */
	extra = new_user(8, 31, 0, 0);
	add(" | late=%s", expect_fatal(do_late_register, extra, "iv_tls_user_register: called after iv_init"));
	add(" | unreg=%s", expect_fatal(do_user_ptr, extra, "iv_tls_user_ptr: called on unregistered iv_tls_user"));
	free(extra);

	check_patterns("before iv_deinit");
	callslen = 0;
	calls[0] = 0;
	iv_deinit();
	add(" | deinit%s", calls);
	add(" | ok");
	printf("%s\n", out);
	fflush(stdout);
}

int main(int argc, char *argv[])
{
	static char line[65536];

	if (argc > 1 && !strcmp(argv[1], "probe")) {
		char libspec[1024];
		struct iv_tls_user *u = new_user(1, 0, 0, 0);

		iv_tls_user_register(u);
		find_lib_users(u);
		lib_spec(libspec, sizeof(libspec));
		printf("S=%zu L=%s\n", sizeof(struct iv_state), libspec);
		return 0;
	}

	while (fgets(line, sizeof(line), stdin) != NULL) {
		pid_t pid;
		int status;

		line[strcspn(line, "\n")] = 0;
		fflush(NULL);
		pid = fork();
		if (pid < 0)
			return 2;
		if (pid == 0) {
			run_case(line);
			exit(0);		/* runs the leak check */
		}
		if (waitpid(pid, &status, 0) != pid)
			return 2;
		if (!WIFEXITED(status) || WEXITSTATUS(status) != 0) {
			fprintf(stderr, "tls_drv: case process failed (status 0x%x)\n", status);
			return WIFEXITED(status) ? WEXITSTATUS(status) : 99;
		}
	}
	return 0;
}
