/*
 * tsan_cov.c -- which functions were executed?  Linked into the ThreadSanitizer binaries of the C14 check
 * (ivfree, tsan_stress), which are compiled with -finstrument-functions: gcc then calls
 * __cyg_profile_func_enter at the entry of every function (also of functions expanded inline).  The first
 * time a function is entered its address is appended to the file named by $TSAN_COV_FILE (one short
 * write(2) with O_APPEND per function and process); lib/tsanrun.py maps the addresses back to names with nm
 * and keeps the functions defined in the library sources.  The observation "TSan reported nothing" only
 * covers code that ran; this makes visible which code that was.
 *
 * The hook must not synchronise the threads of the program with each other (that could hide races from
 * TSan): the table is accessed with RELAXED atomics only, which ThreadSanitizer does not treat as
 * synchronisation, and write(2) on a file only releases.  Everything used is async-signal-safe (the
 * library's signal handler is instrumented too).
 */
#define _GNU_SOURCE
#include <fcntl.h>
#include <stdlib.h>
#include <string.h>
#include <unistd.h>

#define NOINSTR __attribute__((no_instrument_function))
#define SLOTS 8192

static void *seen[SLOTS];
static int covfd = -2;			/* -2: not tried yet, -1: no file */

void __cyg_profile_func_enter(void *fn, void *site) NOINSTR;
void __cyg_profile_func_exit(void *fn, void *site) NOINSTR;
static void emit(char tag, void *p) NOINSTR;
static int cov_fd(void) NOINSTR;

static int cov_fd(void)
{
	int fd = __atomic_load_n(&covfd, __ATOMIC_RELAXED);

	if (fd == -2) {
		const char *path = getenv("TSAN_COV_FILE");
		int expect = -2;

		fd = path != NULL ? open(path, O_WRONLY | O_APPEND | O_CREAT | O_CLOEXEC, 0644) : -1;
		if (!__atomic_compare_exchange_n(&covfd, &expect, fd, 0, __ATOMIC_RELAXED, __ATOMIC_RELAXED)) {
			if (fd >= 0)
				close(fd);
			fd = expect;
		} else if (fd >= 0) {
			/* reference point for the load address of the executable */
			emit('B', (void *)__cyg_profile_func_enter);
		}
	}
	return fd;
}

static void emit(char tag, void *p)
{
	char buf[24];
	unsigned long v = (unsigned long)p;
	int fd = tag == 'B' ? __atomic_load_n(&covfd, __ATOMIC_RELAXED) : cov_fd();
	int i;

	if (fd < 0)
		return;
	buf[0] = tag;
	for (i = 0; i < 16; i++)
		buf[1 + i] = "0123456789abcdef"[(v >> (60 - 4 * i)) & 15];
	buf[17] = '\n';
	if (write(fd, buf, 18) < 0)
		;
}

void __cyg_profile_func_enter(void *fn, void *site)
{
	unsigned long h = ((unsigned long)fn >> 2) * 2654435761UL;
	unsigned i;

	(void)site;
	for (i = 0; i < 128; i++) {
		void **s = &seen[(h + i) % SLOTS];
		void *cur = __atomic_load_n(s, __ATOMIC_RELAXED);

		if (cur == fn)
			return;
		if (cur == NULL) {
			void *expect = NULL;

			if (__atomic_compare_exchange_n(s, &expect, fn, 0, __ATOMIC_RELAXED, __ATOMIC_RELAXED)) {
				emit('F', fn);
				return;
			}
			if (expect == fn)
				return;
		}
	}
}

void __cyg_profile_func_exit(void *fn, void *site)
{
	(void)fn;
	(void)site;
}
