/*
 * mt.c -- baton scheduler + interposition of the pthread calls ivykis makes
 * (see mt.h).  Linked with -Wl,--wrap=<sym> for every symbol defined here as
 * __wrap_<sym>.
 */
#define _GNU_SOURCE
#include <errno.h>
#include <pthread.h>
#include <setjmp.h>
#include <sys/resource.h>
#include <sys/wait.h>
#include <signal.h>
#include <stdint.h>
#include <stdio.h>
#include <stdlib.h>
#include <string.h>
#include <unistd.h>
#include "mt.h"
#include "vk.h"

#define MT_TAGMASK	(0xfffULL << 48)
#define MT_TAG(idx)	(1ULL << (48 + ((idx) % 12)))

const char *mt_schedule;
int mt_active;
int mt_log_idle;

int __real_pthread_create(pthread_t *, const pthread_attr_t *, void *(*)(void *), void *);
int __real_pthread_join(pthread_t, void **);
int __real_pthread_mutex_lock(pthread_mutex_t *);
int __real_pthread_mutex_unlock(pthread_mutex_t *);

enum { BLK_NONE = 0, BLK_MUTEX, BLK_WAIT, BLK_JOIN };

#define MAXKEY 32

struct mt_thread {
	int		used, finished, started, joined;
	int		blocked;
	void		*blocked_on;
	int		join_target;
	int		(*ready)(void *);
	void		*ready_ctx;
	long long	deadline;
	pthread_t	real;
	pthread_cond_t	cv;
	void		*(*start)(void *);
	void		*arg;
	void		*tls[MAXKEY];
	void		*loop_state;
	uint64_t	sigmask, sigpending;
	int		in_signal;
	jmp_buf		exit_jmp;
};

static struct mt_thread th[MT_MAXTHR];
static int nthr;
static int cur;
static pthread_mutex_t B = PTHREAD_MUTEX_INITIALIZER;
static __thread int my_idx = -1;
static size_t sched_pos;

static void (*key_destructor[MAXKEY])(void *);
static int nkeys;

#define MAXLOCK 64
static struct {
	void	*addr;
	int	owner;		/* -1 free */
	int	spin;
} locks[MAXLOCK];
static int nlocks;

int mt_self(void)
{
	return my_idx < 0 ? 0 : my_idx;
}

void mt_init(void)
{
	memset(th, 0, sizeof(th));
	th[0].used = 1;
	th[0].started = 1;
	th[0].real = pthread_self();
	pthread_cond_init(&th[0].cv, NULL);
	nthr = 1;
	cur = 0;
	my_idx = 0;
	__real_pthread_mutex_lock(&B);
	mt_active = 1;
}

void mt_set_loop_state(void *st)
{
	th[mt_self()].loop_state = st;
}

void *mt_loop_state(int t)
{
	return (t >= 0 && t < nthr) ? th[t].loop_state : NULL;
}

int mt_finished(int t)
{
	return th[t].finished;
}

/* ---- lock classification for the log ---- */
static int lock_index(void *addr, int spin)
{
	int i;

	for (i = 0; i < nlocks; i++)
		if (locks[i].addr == addr)
			return i;
	if (nlocks >= MAXLOCK)
		vk_end("VKFULL");
	locks[nlocks].addr = addr;
	locks[nlocks].owner = -1;
	locks[nlocks].spin = spin;
	return nlocks++;
}

/* name of a lock in the log: e<k> = event list mutex of loop thread k (offset known to the interpreter),
   otherwise x<n> numbered by first use */
extern int ivmt_classify_lock(void *addr, char *buf, size_t len);	/* provided by ivmt.c */

static const char *lock_name(int li, char *buf, size_t len)
{
	if (!ivmt_classify_lock(locks[li].addr, buf, len))
		snprintf(buf, len, "%c%d", locks[li].spin ? 's' : 'x', li);
	return buf;
}

/* ---- scheduling ---- */
static int runnable(int t)
{
	struct mt_thread *x = &th[t];

	if (!x->used || x->finished)
		return 0;
	switch (x->blocked) {
	case BLK_NONE:
		return 1;
	case BLK_MUTEX:
		return locks[(intptr_t)x->blocked_on].owner == -1;
	case BLK_WAIT:
		/* a deliverable pending signal interrupts the kernel wait (the handler runs, the wait re-polls once) */
		return x->ready(x->ready_ctx) || (x->deadline >= 0 && x->deadline <= vk_clock) ||
		       (x->sigpending & ~x->sigmask) != 0;
	case BLK_JOIN:
		return th[x->join_target].finished;
	}
	return 0;
}

static int pick(void)
{
	int me = mt_self();
	int t;

	for (;;) {
		if (mt_schedule != NULL && mt_schedule[sched_pos] != 0) {
			char c = mt_schedule[sched_pos++];
			int want = c <= '9' ? c - '0' : c - 'a' + 10;

			if (want >= 0 && want < nthr && runnable(want))
				return want;
		}
		if (runnable(me))
			return me;
		for (t = 0; t < nthr; t++)
			if (runnable(t))
				return t;

		/* everybody is blocked: let virtual time pass */
		{
			long long best = -1;

			for (t = 0; t < nthr; t++)
				if (th[t].used && !th[t].finished && th[t].blocked == BLK_WAIT &&
				    th[t].deadline >= 0 && (best < 0 || th[t].deadline < best))
					best = th[t].deadline;
			if (best < 0)
				vk_end("QUIESCENT");
			if (mt_log_idle)
				vk_trace("Iq %lld", best);	/* the whole process is at rest until the earliest deadline */
			if (best > vk_clock)
				vk_clock = best;
		}
	}
}

static void deliver_signals(void);

static void switch_to(int next)
{
	int me = mt_self();

	if (next == me)
		return;
	cur = next;
	pthread_cond_signal(&th[next].cv);
	while (cur != me)
		pthread_cond_wait(&th[me].cv, &B);
}

void mt_yield(void)
{
	if (!mt_active)
		return;
	deliver_signals();
	switch_to(pick());
	deliver_signals();
}

/* block the calling thread until its condition holds */
static void block_until_runnable(void)
{
	int me = mt_self();

	while (!runnable(me))
		switch_to(pick());
	th[me].blocked = BLK_NONE;
}

void mt_block_in_wait_cb(int (*ready)(void *), void *ctx, long long deadline)
{
	int me = mt_self();

	th[me].blocked = BLK_WAIT;
	th[me].ready = ready;
	th[me].ready_ctx = ctx;
	th[me].deadline = deadline;
	vk_trace("Wb");
	block_until_runnable();
	deliver_signals();
}

/* ---- threads ---- */
static void *trampoline(void *_t)
{
	struct mt_thread *x = _t;
	int me = (int)(x - th);
	int round, k;

	my_idx = me;
	__real_pthread_mutex_lock(&B);
	while (cur != me)
		pthread_cond_wait(&x->cv, &B);
	x->started = 1;

	if (setjmp(x->exit_jmp) == 0)
		x->start(x->arg);

	/* thread-specific data destructors, in key order, while still holding the baton */
	for (round = 0; round < 4; round++) {
		int again = 0;

		for (k = 0; k < nkeys; k++) {
			void *v = x->tls[k];

			if (v != NULL && key_destructor[k] != NULL) {
				x->tls[k] = NULL;
				key_destructor[k](v);
				again = 1;
			}
		}
		if (!again)
			break;
	}

	vk_trace("Tx");
	x->finished = 1;
	{
		/* what the kernel had queued for this thread on behalf of the process is taken by another thread */
		int sg;
		uint64_t pend = x->sigpending;

		x->sigpending = 0;
		for (sg = 1; sg < 64; sg++)
			if (pend & (1ULL << sg))
				mt_raise(sg, -1);
	}
	{
		int next = pick();

		cur = next;
		pthread_cond_signal(&th[next].cv);
	}
	__real_pthread_mutex_unlock(&B);
	return NULL;
}

static int new_thread(void *(*fn)(void *), void *arg, pthread_t *out)
{
	int idx;

	if (nthr >= MT_MAXTHR)
		vk_end("VKFULL");
	idx = nthr++;
	memset(&th[idx], 0, sizeof(th[idx]));
	th[idx].used = 1;
	th[idx].start = fn;
	th[idx].arg = arg;
	/* inherited from the creator, except for the per-thread TAG bit (a signal number outside the range the scenarios
	   use, blocked in this thread only): masks of different threads differ, so a mask restored from the wrong
	   thread's saved copy is visible (harness rule in __wrap_fork) */
	th[idx].sigmask = (th[mt_self()].sigmask & ~MT_TAGMASK) | MT_TAG(idx);
	pthread_cond_init(&th[idx].cv, NULL);
	if (__real_pthread_create(&th[idx].real, NULL, trampoline, &th[idx]) != 0) {
		th[idx].used = 0;
		nthr--;
		return -1;
	}
	if (out != NULL)
		*out = th[idx].real;
	return idx;
}

int mt_spawn(void *(*fn)(void *), void *arg)
{
	return new_thread(fn, arg, NULL);
}

int __wrap_pthread_create(pthread_t *thread, const pthread_attr_t *attr, void *(*fn)(void *), void *arg)
{
	int idx;

	if (!mt_active)
		return __real_pthread_create(thread, attr, fn, arg);
	idx = new_thread(fn, arg, thread);
	if (idx < 0)
		return EAGAIN;
	vk_trace("Tc %d", idx);
	mt_yield();
	return 0;
}

static int idx_of(pthread_t t)
{
	int i;

	/* pthread_t values are reused by libc once a thread has really been joined: skip joined entries */
	for (i = nthr - 1; i >= 0; i--)
		if (th[i].used && !th[i].joined && pthread_equal(th[i].real, t))
			return i;
	return -1;
}

/* a thread that parks in a join reaches no yield point any more: what is pending for it is taken by another thread
   (the kernel would interrupt the join, run the handler and resume it) */
static void retarget_pending(int me)
{
	uint64_t pend = th[me].sigpending & ~th[me].sigmask;
	int sg;

	th[me].sigpending &= ~pend;
	for (sg = 1; sg < 64; sg++)
		if (pend & (1ULL << sg))
			mt_raise(sg, -1);
}

int __wrap_pthread_join(pthread_t thread, void **ret)
{
	int me = mt_self();
	int t;

	if (!mt_active)
		return __real_pthread_join(thread, ret);
	t = idx_of(thread);
	if (t < 0)
		return ESRCH;
	mt_yield();
	if (!th[t].finished) {
		th[me].blocked = BLK_JOIN;
		th[me].join_target = t;
		retarget_pending(me);
		block_until_runnable();
	}
	vk_trace("Tj %d", t);
	/* the real thread returns right after handing the baton over */
	__real_pthread_mutex_unlock(&B);
	__real_pthread_join(thread, ret);
	__real_pthread_mutex_lock(&B);
	th[t].joined = 1;
	return 0;
}

void __wrap_pthread_exit(void *ret)
{
	int me = mt_self();

	(void)ret;
	if (!mt_active || me == 0)
		_exit(0);
	vk_trace("Te");
	longjmp(th[me].exit_jmp, 1);
}

int __wrap_pthread_detach(pthread_t thread)
{
	int t = idx_of(thread);

	vk_trace("Td %d", t);
	return pthread_detach(thread);
}

void mt_join_all(void)
{
	int me = mt_self();
	int t;

	for (t = 0; t < nthr; t++) {
		if (t == me || !th[t].used)
			continue;
		if (!th[t].finished) {
			th[me].blocked = BLK_JOIN;
			th[me].join_target = t;
			retarget_pending(me);
			block_until_runnable();
		}
	}
}

/* ---- thread-specific data ---- */
int __wrap_pthread_key_create(pthread_key_t *key, void (*destructor)(void *))
{
	if (nkeys >= MAXKEY)
		return EAGAIN;
	key_destructor[nkeys] = destructor;
	*key = (pthread_key_t)nkeys++;
	return 0;
}

void *__wrap_pthread_getspecific(pthread_key_t key)
{
	if ((unsigned)key >= MAXKEY)
		return NULL;
	return th[mt_self()].tls[key];
}

int __wrap_pthread_setspecific(pthread_key_t key, const void *value)
{
	if ((unsigned)key >= MAXKEY)
		return EINVAL;
	th[mt_self()].tls[key] = (void *)value;
	return 0;
}

/* ---- mutexes and spin locks ---- */
static int do_lock(void *addr, int spin)
{
	int me = mt_self();
	int li;
	char nb[24];

	if (!mt_active)
		return 0;
	li = lock_index(addr, spin);
	mt_yield();
	if (locks[li].owner == me)
		vk_end("SELFDEADLOCK");
	if (locks[li].owner != -1) {
		th[me].blocked = BLK_MUTEX;
		th[me].blocked_on = (void *)(intptr_t)li;
		block_until_runnable();
	}
	locks[li].owner = me;
	vk_trace("L %s", lock_name(li, nb, sizeof(nb)));
	/* asynchronous signals do not wait for a convenient place: a pending signal that this thread does not block is
	   delivered inside the critical section (the library must have blocked what it cannot take there) */
	deliver_signals();
	return 0;
}

static int do_unlock(void *addr, int spin)
{
	int me = mt_self();
	int li;
	char nb[24];

	if (!mt_active)
		return 0;
	li = lock_index(addr, spin);
	if (locks[li].owner != me)
		vk_trace("BADUNLOCK %s", lock_name(li, nb, sizeof(nb)));
	locks[li].owner = -1;
	vk_trace("U %s", lock_name(li, nb, sizeof(nb)));
	mt_yield();
	return 0;
}

int __wrap_pthread_mutex_init(pthread_mutex_t *m, const pthread_mutexattr_t *a)
{
	(void)a;
	if (mt_active)
		lock_index(m, 0);
	return 0;
}

int __wrap_pthread_mutex_destroy(pthread_mutex_t *m)
{
	int i;

	/* the address may be reused by a later allocation: forget it */
	for (i = 0; i < nlocks; i++)
		if (locks[i].addr == (void *)m)
			locks[i].addr = NULL;
	return 0;
}

int __wrap_pthread_mutex_lock(pthread_mutex_t *m)
{
	return do_lock(m, 0);
}

int __wrap_pthread_mutex_unlock(pthread_mutex_t *m)
{
	return do_unlock(m, 0);
}

int __wrap_pthread_spin_init(pthread_spinlock_t *l, int pshared)
{
	(void)l;
	(void)pshared;
	return 0;
}

int __wrap_pthread_spin_lock(pthread_spinlock_t *l)
{
	return do_lock((void *)l, 1);
}

int __wrap_pthread_spin_unlock(pthread_spinlock_t *l)
{
	return do_unlock((void *)l, 1);
}

/* ---- virtual signals ---- */
#define NSIGV 64
static void (*sig_handler[NSIGV])(int);
static uint64_t sig_samask[NSIGV];	/* sa_mask of the installed handler */
#define ALLSIGS	allsigs()			/* what sigfillset gives (glibc keeps 32 and 33 for itself) */

static uint64_t set_to_bits(const sigset_t *s);

static uint64_t allsigs(void)
{
	static uint64_t all;

	if (all == 0) {
		sigset_t f;

		sigfillset(&f);
		all = set_to_bits(&f);
	}
	return all;
}

static const char *mask_name(uint64_t b, char *buf, size_t len)
{
	if ((b & ALLSIGS) == ALLSIGS)
		return "all";
	if ((b & ALLSIGS & ~MT_TAGMASK) == 0)
		return "none";
	snprintf(buf, len, "%llx", (unsigned long long)(b & ALLSIGS & ~MT_TAGMASK));
	return buf;
}

int __wrap_sigaction(int sig, const struct sigaction *act, struct sigaction *old)
{
	if (sig <= 0 || sig >= NSIGV) {
		errno = EINVAL;
		return -1;
	}
	if (old != NULL) {
		memset(old, 0, sizeof(*old));
		old->sa_handler = sig_handler[sig] ? sig_handler[sig] : SIG_DFL;
	}
	if (act != NULL) {
		if (act->sa_handler == SIG_DFL || act->sa_handler == SIG_IGN)
			sig_handler[sig] = NULL;
		else
			sig_handler[sig] = act->sa_handler;
		sig_samask[sig] = set_to_bits(&act->sa_mask);
		if (mt_active) {
			char mb[24];

			if (sig_handler[sig])
				vk_trace("Sa %d h m=%s", sig, mask_name(sig_samask[sig], mb, sizeof(mb)));
			else
				vk_trace("Sa %d d", sig);
		}
	}
	return 0;
}

int mt_sig_has_handler(int sig)
{
	return sig > 0 && sig < NSIGV && sig_handler[sig] != NULL;
}

static uint64_t set_to_bits(const sigset_t *s)
{	/* (declared above) */
	uint64_t b = 0;
	int i;

	for (i = 1; i < NSIGV; i++)
		if (sigismember(s, i))
			b |= 1ULL << i;
	return b;
}

static void bits_to_set(uint64_t b, sigset_t *s)
{
	int i;

	sigemptyset(s);
	for (i = 1; i < NSIGV; i++)
		if (b & (1ULL << i))
			sigaddset(s, i);
}

int __wrap_pthread_sigmask(int how, const sigset_t *set, sigset_t *old)
{
	struct mt_thread *x = &th[mt_self()];

	if (old != NULL)
		bits_to_set(x->sigmask, old);
	if (set != NULL) {
		uint64_t b = set_to_bits(set);
		uint64_t before = x->sigmask;

		if (how == SIG_BLOCK)
			x->sigmask |= b;
		else if (how == SIG_UNBLOCK)
			x->sigmask &= ~b;
		else
			x->sigmask = b;
		if (mt_active && ((x->sigmask ^ before) & ALLSIGS)) {
			char mb[24];

			vk_trace("Sm %s", mask_name(x->sigmask, mb, sizeof(mb)));
		}
		if (mt_active && how != SIG_BLOCK)
			deliver_signals();
	}
	return 0;
}

void mt_raise(int sig, int thr)
{
	int t;

	if (sig <= 0 || sig >= NSIGV)
		return;
	/* like the kernel: a signal whose default action is "ignore" (SIGCHLD) is discarded when it is GENERATED while
	   the disposition is the default one; it does not stay pending for a handler installed later */
	if (sig == SIGCHLD && sig_handler[sig] == NULL) {
		vk_trace("Sdfl %d", sig);
		return;
	}
	if (thr >= 0 && thr < nthr && th[thr].used && !th[thr].finished && th[thr].blocked != BLK_JOIN) {
		th[thr].sigpending |= 1ULL << sig;
		return;
	}
	/* process-directed: the lowest-numbered live thread that does not block it and is not parked in a join (such a
	   thread reaches no yield point of this scheduler any more; the kernel would pick a thread that can take the
	   signal), else any live thread that does not block it, else thread 0 */
	for (t = 0; t < nthr; t++)
		if (th[t].used && !th[t].finished && th[t].blocked != BLK_JOIN && !(th[t].sigmask & (1ULL << sig))) {
			th[t].sigpending |= 1ULL << sig;
			return;
		}
	for (t = 0; t < nthr; t++)
		if (th[t].used && !th[t].finished && !(th[t].sigmask & (1ULL << sig))) {
			th[t].sigpending |= 1ULL << sig;
			return;
		}
	th[0].sigpending |= 1ULL << sig;
}

static void deliver_signals(void)
{
	struct mt_thread *x = &th[mt_self()];
	int sig;

	/* nested deliveries happen when the running handler's mask (sa_mask + the signal itself) lets them through */
	for (sig = 1; sig < NSIGV; sig++) {
		uint64_t bit = 1ULL << sig;

		if ((x->sigpending & bit) && !(x->sigmask & bit)) {
			x->sigpending &= ~bit;
			if (sig_handler[sig] != NULL) {
				uint64_t saved = x->sigmask;

				vk_trace("Sd %d", sig);
				x->in_signal++;
				x->sigmask = saved | sig_samask[sig] | bit;
				sig_handler[sig](sig);
				x->sigmask = saved;
				x->in_signal--;
				vk_trace("Sx %d", sig);
			} else {
				vk_trace("Sdfl %d", sig);
			}
		}
	}
}

/* the calling thread receives sig right now (used for deliveries in a forked child, see mt_as_child) */
void mt_deliver_now(int sig)
{
	struct mt_thread *x = &th[mt_self()];
	uint64_t saved = x->sigmask;
	int nested = x->in_signal;

	if (sig <= 0 || sig >= NSIGV || sig_handler[sig] == NULL) {
		vk_trace("Sdfl %d", sig);
		return;
	}
	vk_trace("Sd %d", sig);
	x->in_signal = nested + 1;
	x->sigmask = saved | sig_samask[sig] | (1ULL << sig);
	sig_handler[sig](sig);
	x->sigmask = saved;
	x->in_signal = nested;
	vk_trace("Sx %d", sig);
}

/* ---- virtual processes: fork / wait4 / kill / getpid ---- */
#define MAXCHILD 32
#define MAXATFORK 8
static void (*af_prepare[MAXATFORK])(void), (*af_parent[MAXATFORK])(void), (*af_child[MAXATFORK])(void);
static int n_atfork;
static int vpid = 5000;			/* the virtual pid of this process */
static int next_pid = 5001;
static struct {
	int	pid;
	int	reaped;			/* its termination has been returned by wait4 */
	int	nq;
	int	q[16];			/* pending status changes (wait4 status words), oldest first */
} child[MAXCHILD];
static int nchild;

int __wrap_pthread_atfork(void (*prepare)(void), void (*parent)(void), void (*chld)(void))
{
	if (n_atfork < MAXATFORK) {
		af_prepare[n_atfork] = prepare;
		af_parent[n_atfork] = parent;
		af_child[n_atfork] = chld;
		n_atfork++;
	}
	return 0;
}

pid_t __wrap_getpid(void)
{
	return vpid;
}

/* the parent side of fork(): the child is a scripted virtual process */
int mt_fork_fail_at;
static int n_forks;

pid_t __wrap_fork(void)
{
	int i, pid;
	uint64_t mask0 = mt_active ? th[mt_self()].sigmask : 0;

	if (!mt_active)
		return -1;
	if (nchild >= MAXCHILD) {
		errno = EAGAIN;
		return -1;
	}
	for (i = n_atfork - 1; i >= 0; i--)
		if (af_prepare[i] != NULL)
			af_prepare[i]();
	if (mt_fork_fail_at > 0 && ++n_forks == mt_fork_fail_at) {
		/* scenario option Xforkfail=<k>: the k-th fork() fails with EAGAIN (no child exists); like the C library, the
		   prepare and parent handlers have run */
		for (i = 0; i < n_atfork; i++)
			if (af_parent[i] != NULL)
				af_parent[i]();
		vk_trace("Fx");
		if (th[mt_self()].sigmask != mask0)
			vk_trace("X fork: the calling thread's signal mask changed across a failed fork() (%llx -> %llx)",
				 (unsigned long long)mask0, (unsigned long long)th[mt_self()].sigmask);
		errno = EAGAIN;
		return -1;
	}
	pid = next_pid++;
	child[nchild].pid = pid;
	child[nchild].reaped = 0;
	child[nchild].nq = 0;
	nchild++;
	for (i = 0; i < n_atfork; i++)
		if (af_parent[i] != NULL)
			af_parent[i]();
	vk_trace("Fk %d", pid);
	/* harness rule: fork() returns with the caller's signal mask unchanged (the atfork handlers of the library block
	   signals around the fork and must restore THIS thread's mask) */
	if (th[mt_self()].sigmask != mask0)
		vk_trace("X fork: the calling thread's signal mask changed across fork() (%llx -> %llx)",
			 (unsigned long long)mask0, (unsigned long long)th[mt_self()].sigmask);
	if (mt_fork_hook != NULL)
		mt_fork_hook(pid);	/* the scenario may let the child change state at once */
	return pid;
}

/* scenario side: a child the library did not fork (a "stranger"), returns its pid */
int mt_new_child(void)
{
	if (nchild >= MAXCHILD)
		vk_end("VKFULL");
	child[nchild].pid = next_pid++;
	child[nchild].reaped = 0;
	child[nchild].nq = 0;
	return child[nchild++].pid;
}

/* scenario side: the child changes state; SIGCHLD becomes pending for the process (for thread mt_chld_thr
   when the scenario chose the receiving thread; -1 = default choice of mt_raise) */
int mt_chld_thr = -1;
void (*mt_kill_hook)(int pid, int sig);
void (*mt_fork_hook)(int pid);
int (*mt_reap_hold)(int pid);		/* wait4 does not report this child's changes yet */

int mt_child_status(int pid, int status)
{
	int i;

	for (i = 0; i < nchild; i++)
		if (child[i].pid == pid && !child[i].reaped && child[i].nq < 16) {
			child[i].q[child[i].nq++] = status;
			mt_raise(SIGCHLD, (mt_chld_thr >= 0 && mt_chld_thr < nthr && th[mt_chld_thr].used && !th[mt_chld_thr].finished) ? mt_chld_thr : -1);
			return 1;
		}
	return 0;
}

/* run fn in the context of a forked child of this process (pid differs, atfork child handlers ran) */
void mt_as_child(void (*fn)(void *), void *arg)
{
	struct mt_thread *x = &th[mt_self()];
	int saved = vpid;
	uint64_t saved_pending, saved_mask;
	int i;

	for (i = n_atfork - 1; i >= 0; i--)
		if (af_prepare[i] != NULL)
			af_prepare[i]();
	/* the child starts with the parent's mask and no pending signals; what is pending for the parent stays
	   pending for the parent */
	saved_pending = x->sigpending;
	saved_mask = x->sigmask;
	x->sigpending = 0;
	vpid = next_pid++;
	vk_trace("Fc %d", vpid);	/* from here to Fx: the child process (its mask changes are its own) */
	for (i = 0; i < n_atfork; i++)
		if (af_child[i] != NULL)
			af_child[i]();
	fn(arg);
	vk_trace("Fx %d", vpid);
	vpid = saved;
	x->sigmask = saved_mask;
	x->sigpending = saved_pending;
	for (i = 0; i < n_atfork; i++)
		if (af_parent[i] != NULL)
			af_parent[i]();
}

/* wait4: the pid argument (-1 / 0 / < -1 = any child, > 0 = that child) and the options are honoured: a stop is
   reported only with WUNTRACED, a continuation only with WCONTINUED (a change the caller did not ask for is never
   reported: it is dropped here); without WNOHANG a call that has live children but nothing to report would block
   for ever -- the run ends with HANG.  Log: "W4 <pid> <status> o=<n|u|c letters>". */
pid_t __wrap_wait4(pid_t pid, int *status, int options, struct rusage *ru)
{
	int i, live = 0;
	char ob[8];
	int on = 0;

	if (options & WNOHANG)
		ob[on++] = 'n';
	if (options & WUNTRACED)
		ob[on++] = 'u';
	if (options & WCONTINUED)
		ob[on++] = 'c';
	if (on == 0)
		ob[on++] = '-';
	ob[on] = 0;
	if (ru != NULL)
		memset(ru, 0, sizeof(*ru));
	/* the first child in creation order that has a reportable change */
	for (i = 0; i < nchild; i++) {
		if (child[i].reaped || (pid > 0 && child[i].pid != pid))
			continue;
		live++;
		if (mt_reap_hold != NULL && mt_reap_hold(child[i].pid))
			continue;
		while (child[i].nq > 0) {
			int st = child[i].q[0];
			int dead = WIFEXITED(st) || WIFSIGNALED(st);
			int wanted = dead || (st == 0xffff ? (options & WCONTINUED) : (options & WUNTRACED));

			memmove(&child[i].q[0], &child[i].q[1], (child[i].nq - 1) * sizeof(int));
			child[i].nq--;
			if (!wanted)
				continue;
			if (dead) {
				child[i].reaped = 1;
				child[i].nq = 0;
			}
			if (status != NULL)
				*status = st;
			vk_trace("W4 %d %d o=%s", child[i].pid, st, ob);
			return child[i].pid;
		}
	}
	if (!live) {
		vk_trace("W4 -1 0 o=%s", ob);
		errno = ECHILD;
		return -1;
	}
	if (!(options & WNOHANG)) {
		vk_trace("W4 0 0 o=%s", ob);
		vk_end("HANG");		/* blocking wait with nothing to report */
	}
	vk_trace("W4 0 0 o=%s", ob);
	return 0;
}

int __wrap_kill(pid_t pid, int sig)
{
	int i;

	for (i = 0; i < nchild; i++)
		if (child[i].pid == pid) {
			/* a zombie (terminated, not yet reaped) still accepts signals; a reaped pid is gone */
			vk_trace("Ki %d %d %s", (int)pid, sig, child[i].reaped ? "ESRCH-REAPED" : "ok");
			if (child[i].reaped) {
				errno = ESRCH;
				return -1;
			}
			if (mt_kill_hook != NULL)
				mt_kill_hook((int)pid, sig);
			return 0;
		}
	vk_trace("Ki %d %d ESRCH", (int)pid, sig);
	errno = ESRCH;
	return -1;
}

/* number of children that are not reaped and have a termination queued (zombies) / any change queued */
int mt_child_pending(int only_dead)
{
	int i, k, n = 0;

	for (i = 0; i < nchild; i++) {
		if (child[i].reaped)
			continue;
		for (k = 0; k < child[i].nq; k++)
			if (!only_dead || WIFEXITED(child[i].q[k]) || WIFSIGNALED(child[i].q[k])) {
				n++;
				break;
			}
	}
	return n;
}

/* has the termination of this child been returned by wait4 (the pid is gone)?  unknown pid: 1 */
int mt_child_reaped(int pid)
{
	int i;

	for (i = 0; i < nchild; i++)
		if (child[i].pid == pid)
			return child[i].reaped;
	return 1;
}

int mt_child_has_pending(int pid)
{
	int i;

	for (i = 0; i < nchild; i++)
		if (child[i].pid == pid)
			return !child[i].reaped && child[i].nq > 0;
	return 0;
}
