/*
 * tsan_inotify -- two (or more) loop threads, each with its own iv_inotify instance and a watch on its own
 * temporary directory, creating and removing files there while the other threads do the same: independent loops
 * in different threads (C14) for iv_inotify.c, on the real kernel, built with -fsanitize=thread.
 * Each thread: a 1 ms timer creates and unlinks a few files per tick (several records per read); the watch handler
 * checks that every event carries a name this thread created (a record of another instance's read would carry the
 * other thread's prefix) and counts; after ROUNDS ticks the thread unregisters everything and leaves its loop.
 * usage: tsan_inotify <seed> [nthr]   last line of stdout: DONE events=<n> foreign=<n>; exit 0 / 1 (foreign events)
 */
#define _GNU_SOURCE
#include <fcntl.h>
#include <pthread.h>
#include <stdio.h>
#include <stdlib.h>
#include <string.h>
#include <sys/inotify.h>
#include <sys/stat.h>
#include <unistd.h>
#include <iv.h>
#include <iv_inotify.h>

#define MAXTHR	4
#define ROUNDS	150

struct thr {
	int			id;
	char			dir[64];
	struct iv_inotify	in;
	struct iv_inotify_watch	w;
	struct iv_timer		tick;
	int			round;
	long			events;
	long			foreign;
	unsigned int		seed;
};

static struct thr thr[MAXTHR];

static void got(void *_t, struct inotify_event *ev)
{
	struct thr *t = _t;
	char pfx[16];

	t->events++;
	snprintf(pfx, sizeof(pfx), "t%d-", t->id);
	if (ev->len && strncmp(ev->name, pfx, strlen(pfx)) != 0)
		t->foreign++;
}

static void tick(void *_t)
{
	struct thr *t = _t;
	int i, n;

	if (++t->round > ROUNDS) {
		iv_inotify_watch_unregister(&t->w);
		iv_inotify_unregister(&t->in);
		return;
	}
	t->seed = t->seed * 1103515245u + 12345u;
	n = 1 + (t->seed >> 16) % 4;
	for (i = 0; i < n; i++) {
		char path[128];
		int fd;

		snprintf(path, sizeof(path), "%s/t%d-%d-%d", t->dir, t->id, t->round, i);
		fd = open(path, O_CREAT | O_WRONLY, 0600);
		if (fd >= 0)
			close(fd);
		unlink(path);
	}
	iv_validate_now();
	t->tick.expires = iv_now;
	t->tick.expires.tv_nsec += 1000000;
	if (t->tick.expires.tv_nsec >= 1000000000) {
		t->tick.expires.tv_sec++;
		t->tick.expires.tv_nsec -= 1000000000;
	}
	iv_timer_register(&t->tick);
}

static void *thread_main(void *_t)
{
	struct thr *t = _t;

	iv_init();
	IV_INOTIFY_INIT(&t->in);
	if (iv_inotify_register(&t->in) < 0) {
		iv_deinit();
		return NULL;
	}
	IV_INOTIFY_WATCH_INIT(&t->w);
	t->w.inotify = &t->in;
	t->w.pathname = t->dir;
	t->w.mask = IN_CREATE | IN_DELETE;
	t->w.cookie = t;
	t->w.handler = got;
	if (iv_inotify_watch_register(&t->w) < 0) {
		iv_inotify_unregister(&t->in);
		iv_deinit();
		return NULL;
	}
	IV_TIMER_INIT(&t->tick);
	t->tick.cookie = t;
	t->tick.handler = tick;
	iv_validate_now();
	t->tick.expires = iv_now;
	iv_timer_register(&t->tick);
	iv_main();
	iv_deinit();
	return NULL;
}

int main(int argc, char **argv)
{
	int nthr = argc > 2 ? atoi(argv[2]) : 3;
	unsigned int seed = argc > 1 ? atoi(argv[1]) : 1;
	pthread_t tid[MAXTHR];
	long ev = 0, foreign = 0;
	int i;

	if (nthr < 2 || nthr > MAXTHR)
		nthr = 3;
	alarm(60);
	for (i = 0; i < nthr; i++) {
		const char *base = getenv("TMPDIR") ? getenv("TMPDIR") : "/var/tmp";

		thr[i].id = i;
		thr[i].seed = seed * 7919u + i;
		snprintf(thr[i].dir, sizeof(thr[i].dir), "%s/ivtsan-XXXXXX", base);
		if (mkdtemp(thr[i].dir) == NULL) {
			printf("SKIP no temporary directory\nDONE events=0 foreign=0\n");
			return 0;
		}
	}
	/* the first iv_init of a process allocates the process-wide keys: it must not race with another one (documented
	   precondition, as in churn.c / ivfree.c), so it happens here */
	iv_init();
	iv_deinit();
	for (i = 0; i < nthr; i++)
		pthread_create(&tid[i], NULL, thread_main, &thr[i]);
	for (i = 0; i < nthr; i++) {
		pthread_join(tid[i], NULL);
		ev += thr[i].events;
		foreign += thr[i].foreign;
		rmdir(thr[i].dir);
	}
	printf("DONE events=%ld foreign=%ld\n", ev, foreign);
	return foreign ? 1 : 0;
}
