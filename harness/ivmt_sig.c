/*
 * ivmt_sig.c -- extension of the multi-threaded scenario interpreter (ivmt.c) for iv_signal (C10),
 * iv_wait (C11) and iv_popen (C19).  Defines the hooks ivmt_ext_action / ivmt_ext_loop_init /
 * ivmt_ext_loop_finish.  Signals and child processes are virtual (mt.c).
 *
 * New actions (objects belong to the executing loop thread; every structure is malloc'ed and filled
 * with 0xaa at registration, poisoned and freed as soon as the unregister / close call returned):
 *   gr<j>=<sig>[x][t]     iv_signal_register of interest j: signum, x = EXCLUSIVE, t = THIS_THREAD
 *                         log: "a gr<j>=<sig><flags> p=<address>" ... "A gr<j> r=<rfd> w=<wfd>"
 *   gu<j>                 iv_signal_unregister (+ free)          log: "a gu<j>" ... "A gu<j>"
 *   sg<sig>@<thr>         signal becomes pending for thread thr; sg<sig> = process-directed (mt_raise
 *                         chooses).  Delivered at that thread's next yield point: "Sd <sig>" .. "Sx <sig>"
 *                         (or "Sdfl <sig>" when no handler is installed any more).  Guard: a handler is installed.
 *   sc<sig>               the signal is delivered to a forked child of this process (mt_as_child): "Fc <pid>",
 *                         "Sd"/"Sx", "Fx <pid>" -- the parent's handlers must not be triggered
 *   cn<c>                 child c is created as a stranger (not forked by the library): "a cn<c> pid=<pid>"
 *   ir<j>=<c>             iv_wait_interest_register of interest j for the pid of child c ("a ir<j>=<c> pid=<pid>" .. "A ir<j>").
 *                         Guards (API contract): no other interest registered for that child, its termination not reaped; while
 *                         the call is in flight wait4 does not report this child's changes (they are reported right after),
 *                         so that the pid is an unreaped child when the interest enters the tree
 *   is<j>=<c>[.<st>]      iv_wait_interest_register_spawn; the new child becomes child c; with <st> the child
 *                         changes state at once (inside fork, before the parent inserts the interest)
 *                         log: "a is<j>=<c>" .. "Fk <pid>" .. "A is<j> pid=<pid> rc=<rc>"
 *   iu<j>                 iv_wait_interest_unregister (+ free)   log: "a iu<j>" .. "A iu<j>"
 *   ik<j>=<sig>           iv_wait_interest_kill                  log: "a ik<j>=<sig>" [.. "Ki <pid> <sig> ok"] .. "A ik<j>=<rc>"
 *   cs<c>=<st>[@<thr>]    child c changes state: <st> = s (stopped) | c (continued) | e<n> (exit n) | k<n> (killed
 *                         by signal n); SIGCHLD becomes pending (for thread thr if given).  "a cs<c>=<st> pid=<pid> st=<status>"
 *                         (ignored once the child has terminated; at most 48 changes per scenario)
 *   pr<j>=<r|w>.<c>.<b>   iv_popen_request_submit of request j, type r/w; the child becomes child c with behaviour
 *                         b = e<n> (exits at once with code n) | t<n> (dies from the n-th SIGTERM, n >= 1) | i (ignores
 *                         SIGTERM); SIGKILL always kills; a later cs<c>=.. lets it end on its own between two signals.
 *                         log: "a pr<j>=.." .. "A pr<j> fd=<fd> k=<r|w|?> po=<peer open> pid=<pid>"
 *   pc<j>                 iv_popen_request_close, close(fd), free of the request: "a pc<j>" .. "A pc<j> now=<iv_now>"
 *                         every kill() that reaches an unreaped child is followed by "Kc <iv_now> <clock>"
 * "Iq <deadline>" is logged whenever every thread is blocked and only the passing of virtual time can wake one (the process
 * is at rest); "W4 <pid> <status> o=<options>" carries the wait4 options (n = WNOHANG, u = WUNTRACED, c = WCONTINUED).
 * Handler scripts: H<k>g<j> (signal interest j: "Cg<j>"), H<k>i<j> (wait interest j: "Ci<j> <status>").
 * At the end of a loop thread the remaining interests are unregistered ("a gu"/"a iu" as above); the
 * main thread finally logs "Zc <n>" = number of children whose termination was never reaped.
 */
#define _GNU_SOURCE
#include <errno.h>
#include <signal.h>
#include <stdarg.h>
#include <stdio.h>
#include <stdlib.h>
#include <string.h>
#include <sys/wait.h>
#include <unistd.h>
#include <iv.h>
#include <iv_signal.h>
#include <iv_wait.h>
#include <iv_popen.h>
#include "vk.h"
#include "mt.h"
#include "ivmt.h"

#define NCH	16

struct sctx {
	struct iv_signal	*sg[NOBJ];
	int			sg_reg[NOBJ];
	struct cookie		csg[NOBJ];
	struct iv_wait_interest	*wi[NOBJ];
	int			wi_reg[NOBJ];
	int			wi_child[NOBJ];
	struct cookie		cwi[NOBJ];
	struct iv_popen_request	*pr[NOBJ];
	int			pr_fd[NOBJ];
};

static struct sctx sx[NTHR];
static int cpid[NCH];		/* pid of child c, 0 = not created */
static int cint[NCH];		/* child c has a registered wait interest (API contract: at most one) */
static int cdead[NCH];		/* a terminating status was queued for child c */
static char cbeh[NCH];		/* popen child behaviour: 0 none, 't' dies from the n-th SIGTERM, 'i' ignores SIGTERM */
static int cbeh_n[NCH], cterm[NCH];
static int chold[NCH];		/* iv_wait_interest_register in flight for child c: its changes are reported afterwards */
static int spawning = -1;	/* child index being created by the running fork() */
static char spawn_st[16];

static void *fresh(size_t sz)
{
	void *p = malloc(sz);

	memset(p, 0xaa, sz);
	return p;
}

static void release(void *p, size_t sz)
{
	memset(p, 0xaa, sz);
	free(p);
}

static struct sctx *sx_of(struct tctx *c)
{
	return &sx[c - tc];
}

/* ---- signals ---- */
static void sig_callback(void *cookie)
{
	struct cookie *ck = cookie;

	vk_trace("Cg%d", ck->id);
	run_script(&tc[ck->thr], &tc[ck->thr].hs['g'][ck->id]);
}

static void child_deliver(void *arg)
{
	mt_deliver_now((int)(long)arg);
}

static void act_sig_register(struct tctx *c, const char *a, int j, const char *p)
{
	struct sctx *s = sx_of(c);
	struct iv_signal *is;
	int sig;

	if (c->kind != 1 || c->st == NULL || s->sg_reg[j] || *p != '=')
		return;
	sig = num(p + 1, &p);
	is = fresh(sizeof(*is));
	IV_SIGNAL_INIT(is);
	is->signum = sig;
	is->flags = (strchr(p, 'x') ? IV_SIGNAL_FLAG_EXCLUSIVE : 0) | (strchr(p, 't') ? IV_SIGNAL_FLAG_THIS_THREAD : 0);
	s->csg[j] = (struct cookie){ (int)(c - tc), 'g', j };
	is->cookie = &s->csg[j];
	is->handler = sig_callback;
	s->sg[j] = is;
	vk_trace("a %s p=%llu", a, (unsigned long long)(unsigned long)is);
	if (iv_signal_register(is) != 0) {
		vk_trace("A gr%d failed", j);
		release(is, sizeof(*is));
		s->sg[j] = NULL;
		return;
	}
	s->sg_reg[j] = 1;
	vk_trace("A gr%d r=%d w=%d", j, is->ev.event_rfd.fd, is->ev.event_wfd);
}

static void act_sig_unregister(struct tctx *c, int j)
{
	struct sctx *s = sx_of(c);

	if (c->kind != 1 || c->st == NULL || !s->sg_reg[j])
		return;
	vk_trace("a gu%d", j);
	s->sg_reg[j] = 0;
	iv_signal_unregister(s->sg[j]);
	release(s->sg[j], sizeof(struct iv_signal));
	s->sg[j] = NULL;
	vk_trace("A gu%d", j);
}

/* ---- children and wait interests ---- */
static int parse_status(const char *s, const char **end)
{
	int st = -1;

	switch (*s) {
	case 's':
		st = (SIGSTOP << 8) | 0x7f;
		s++;
		break;
	case 'c':
		st = 0xffff;
		s++;
		break;
	case 'e':
		st = (num(s + 1, &s) & 0xff) << 8;
		break;
	case 'k':
		st = num(s + 1, &s) & 0x7f;
		break;
	}
	if (end != NULL)
		*end = s;
	return st;
}

static int child_of_pid(int pid)
{
	int c;

	for (c = 0; c < NCH; c++)
		if (cpid[c] == pid)
			return c;
	return -1;
}

static void child_change(int c, int st, int thr, const char *why)
{
	static int nchanges;

	if (c < 0 || c >= NCH || cpid[c] == 0 || cdead[c] || st < 0 || ++nchanges > 48)
		return;		/* 48: a handler script that answers every status with a new one must come to rest */
	mt_chld_thr = thr;
	if (!mt_child_status(cpid[c], st)) {	/* the kernel model did not take it (queue of this child is full) */
		mt_chld_thr = -1;
		return;
	}
	mt_chld_thr = -1;
	if (WIFEXITED(st) || WIFSIGNALED(st))
		cdead[c] = 1;
	/* logged only when the change really exists: the drivers use these records as ground truth */
	vk_trace("a %s pid=%d st=%d", why, cpid[c], st);
}

static void fork_hook(int pid)
{
	int c = spawning;

	if (c < 0 || c >= NCH)
		return;
	cpid[c] = pid;
	if (spawn_st[0]) {
		char why[40];

		snprintf(why, sizeof(why), "cs%d=%s", c, spawn_st);
		child_change(c, parse_status(spawn_st, NULL), -1, why);
	}
}

static void kill_hook(int pid, int sig)
{
	int c = child_of_pid(pid);
	char why[40];

	vk_trace("Kc %lld %lld", (long long)iv_now.tv_sec * 1000000000LL + iv_now.tv_nsec, vk_clock);
	if (c < 0 || cdead[c])
		return;
	if (sig == SIGKILL) {
		snprintf(why, sizeof(why), "cs%d=k9", c);
		child_change(c, SIGKILL, -1, why);
	} else if (sig == SIGTERM && cbeh[c] == 't' && ++cterm[c] >= cbeh_n[c]) {
		snprintf(why, sizeof(why), "cs%d=k15", c);
		child_change(c, SIGTERM, -1, why);
	}
}

static void wait_callback(void *cookie, int status, const struct rusage *ru)
{
	struct cookie *ck = cookie;

	(void)ru;
	vk_trace("Ci%d %d", ck->id, status);
	run_script(&tc[ck->thr], &tc[ck->thr].hs['i'][ck->id]);
}

static void never_child(void *cookie)
{
	(void)cookie;
}

static void act_wait_register(struct tctx *c, const char *a, int j, const char *p, int spawn)
{
	struct sctx *s = sx_of(c);
	struct iv_wait_interest *w;
	int ch, rc = 0;

	if (c->kind != 1 || c->st == NULL || s->wi_reg[j] || *p != '=')
		return;
	ch = num(p + 1, &p);
	if (ch < 0 || ch >= NCH || cint[ch] || (spawn ? cpid[ch] != 0 : (cpid[ch] == 0 || mt_child_reaped(cpid[ch]))))
		return;		/* API contract: one interest per pid, the pid is an unreaped child of this process */
	w = fresh(sizeof(*w));
	IV_WAIT_INTEREST_INIT(w);
	s->cwi[j] = (struct cookie){ (int)(c - tc), 'i', j };
	w->cookie = &s->cwi[j];
	w->handler = wait_callback;
	s->wi[j] = w;
	s->wi_child[j] = ch;
	cint[ch] = 1;		/* before the call: other threads run at its yield points */
	if (!spawn) {
		w->pid = cpid[ch];
		vk_trace("a %s pid=%d", a, cpid[ch]);
		/* API contract: the pid is an unreaped child when the interest enters the tree.  A user cannot guarantee that
		   against a concurrent reaper; the scenario does, by reporting this child's changes only after the call */
		chold[ch] = 1;
		iv_wait_interest_register(w);
		chold[ch] = 0;
		vk_trace("A ir%d", j);
		if (mt_child_has_pending(cpid[ch]))
			mt_raise(SIGCHLD, -1);
	} else {
		spawning = ch;
		snprintf(spawn_st, sizeof(spawn_st), "%s", *p == '.' ? p + 1 : "");
		vk_trace("a %s", a);
		rc = iv_wait_interest_register_spawn(w, never_child, NULL);
		spawning = -1;
		vk_trace("A is%d pid=%d rc=%d", j, cpid[ch], rc);
		if (rc < 0) {
			release(w, sizeof(*w));
			s->wi[j] = NULL;
			cint[ch] = 0;
			return;
		}
	}
	s->wi_reg[j] = 1;
}

static void act_wait_unregister(struct tctx *c, int j)
{
	struct sctx *s = sx_of(c);

	if (c->kind != 1 || c->st == NULL || !s->wi_reg[j])
		return;
	vk_trace("a iu%d", j);
	s->wi_reg[j] = 0;
	iv_wait_interest_unregister(s->wi[j]);
	release(s->wi[j], sizeof(struct iv_wait_interest));
	s->wi[j] = NULL;
	cint[s->wi_child[j]] = 0;	/* only now may another interest for this pid be registered */
	vk_trace("A iu%d", j);
}

/* ---- popen ---- */
static void act_popen_submit(struct tctx *c, const char *a, int j, const char *p)
{
	struct sctx *s = sx_of(c);
	struct iv_popen_request *r;
	static char *argv0[] = { "ivmt-child", NULL };
	int ch, fd;
	char type;
	struct vk_fd *v;

	if (c->kind != 1 || c->st == NULL || s->pr[j] != NULL || *p != '=' || (p[1] != 'r' && p[1] != 'w') || p[2] != '.')
		return;
	type = p[1];
	ch = num(p + 3, &p);
	if (ch < 0 || ch >= NCH || cpid[ch] != 0 || *p != '.')
		return;
	p++;
	r = fresh(sizeof(*r));
	IV_POPEN_REQUEST_INIT(r);
	r->file = "ivmt-child";
	r->argv = argv0;
	r->type = type == 'r' ? "r" : "w";
	spawn_st[0] = 0;
	cbeh[ch] = 0;
	cterm[ch] = 0;
	if (*p == 'e')
		snprintf(spawn_st, sizeof(spawn_st), "%s", p);
	else if (*p == 't') {
		cbeh[ch] = 't';
		cbeh_n[ch] = num(p + 1, NULL);
	} else
		cbeh[ch] = 'i';
	spawning = ch;
	vk_trace("a %s", a);
	fd = iv_popen_request_submit(r);
	spawning = -1;
	v = fd >= 0 ? vk_get(fd) : NULL;
	vk_trace("A pr%d fd=%d k=%c po=%d pid=%d", j, fd,
		 v == NULL ? '?' : v->kind == VK_PIPE_R ? 'r' : v->kind == VK_PIPE_W ? 'w' : '?',
		 v == NULL ? -1 : v->peer_open, cpid[ch]);
	if (fd < 0) {
		release(r, sizeof(*r));
		return;
	}
	s->pr[j] = r;
	s->pr_fd[j] = fd;
}

static void act_popen_close(struct tctx *c, int j)
{
	struct sctx *s = sx_of(c);

	if (c->kind != 1 || c->st == NULL || s->pr[j] == NULL)
		return;
	vk_trace("a pc%d", j);
	iv_popen_request_close(s->pr[j]);
	close(s->pr_fd[j]);
	/* the request structure is not touched after close returns */
	release(s->pr[j], sizeof(struct iv_popen_request));
	s->pr[j] = NULL;
	vk_trace("A pc%d now=%lld", j, (long long)iv_now.tv_sec * 1000000000LL + iv_now.tv_nsec);
}

/* ---- dispatcher ---- */
int ivmt_ext_action(struct tctx *c, const char *a)
{
	const char *p;
	int j;

	if (a[0] == 0 || a[1] == 0)
		return 0;
	j = num(a + 2, &p);
	switch (a[0]) {
	case 'g':
		if (a[1] == 'r')
			act_sig_register(c, a, obj(j), p);
		else if (a[1] == 'u')
			act_sig_unregister(c, obj(j));
		return 1;
	case 's':
		if (a[1] == 'g') {
			int thr = *p == '@' ? num(p + 1, NULL) : -1;

			if (j > 0 && j < 64 && mt_sig_has_handler(j) && thr < NTHR && (thr < 0 || tc[thr].kind != 0)) {
				vk_trace("a %s", a);
				mt_raise(j, thr);
			}
			return 1;
		}
		if (a[1] == 'c') {
			if (j > 0 && j < 64 && mt_sig_has_handler(j)) {
				vk_trace("a %s", a);
				mt_as_child(child_deliver, (void *)(long)j);
				vk_trace("A sc%d", j);
			}
			return 1;
		}
		return 0;
	case 'i':
		if (a[1] == 'r' || a[1] == 's')
			act_wait_register(c, a, obj(j), p, a[1] == 's');
		else if (a[1] == 'u')
			act_wait_unregister(c, obj(j));
		else if (a[1] == 'k') {
			struct sctx *s = sx_of(c);

			j = obj(j);
			if (c->kind == 1 && s->wi_reg[j] && *p == '=') {
				int rc;

				vk_trace("a %s", a);
				rc = iv_wait_interest_kill(s->wi[j], num(p + 1, NULL));
				vk_trace("A ik%d=%d", j, rc);
			}
		}
		return 1;
	case 'c':
		if (a[1] == 'n') {
			if (j >= 0 && j < NCH && cpid[j] == 0) {
				cpid[j] = mt_new_child();
				vk_trace("a cn%d pid=%d", j, cpid[j]);
			}
			return 1;
		}
		if (a[1] == 's') {
			if (*p == '=') {
				const char *q;
				int st = parse_status(p + 1, &q);

				child_change(j, st, *q == '@' ? num(q + 1, NULL) : -1, a);
			}
			return 1;
		}
		return 0;		/* ca<ns> belongs to ivmt.c */
	case 'p':
		if (a[1] == 'r')
			act_popen_submit(c, a, obj(j), p);
		else if (a[1] == 'c')
			act_popen_close(c, obj(j));
		return 1;
	}
	return 0;
}

static int reap_hold(int pid)
{
	int c = child_of_pid(pid);

	return c >= 0 && chold[c];
}

void ivmt_ext_loop_init(struct tctx *c, int k)
{
	(void)c;
	if (k == 0) {
		mt_fork_hook = fork_hook;
		mt_kill_hook = kill_hook;
		mt_reap_hold = reap_hold;
		mt_log_idle = 1;
	}
}

void ivmt_ext_loop_finish(struct tctx *c, int k)
{
	struct sctx *s = sx_of(c);
	int j;

	for (j = 0; j < NOBJ; j++) {
		act_sig_unregister(c, j);
		act_wait_unregister(c, j);
		if (s->pr[j] != NULL)
			vk_trace("PO%d", j);	/* request left open by the scenario: stays allocated */
	}
	if (k == 0)
		vk_trace("Zc %d", mt_child_pending(1));
}
