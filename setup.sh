#!/bin/sh
# Build the framework from files on disk only (offline): the whole Coq
# development as a full .vo build.  Harnesses and extracted model runners are
# rebuilt by every check from /repo's working tree.
set -e
cd "$(dirname "$0")"
# translated leaf functions (regenerated from /repo by every check as well)
python3 gen/c2gallina.py
cd coq
coq_makefile -f _CoqProject -o Makefile
timeout 7200 make -j16
