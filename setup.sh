#!/bin/sh
# Build the framework from files on disk only (offline): the whole Coq
# development as a full .vo build.  Harnesses and extracted model runners are
# rebuilt by every check from /repo's working tree.
set -e
cd "$(dirname "$0")"
# translated leaf functions (regenerated from /repo by every check as well)
python3 gen/c2gallina.py
cd coq
coq_makefile -f _CoqProject -o Makefile
# -k: one file that no longer builds must not keep the unrelated properties from being checked; every check
# re-runs make on its own targets and reports a broken proof for its property
timeout 7200 make -k -j16 || echo "setup: some Coq files failed to build; the checks that depend on them will report it"
