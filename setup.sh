#!/bin/sh
# Build the framework from files on disk only (offline): the whole Coq
# development as a full .vo build.  Harnesses and extracted model runners are
# rebuilt by every check from /repo's working tree.
set -e
cd "$(dirname "$0")/coq"
coq_makefile -f _CoqProject -o Makefile
timeout 7200 make -j16
